package refeval

import (
	"regexp"
	"strings"
)

// record is the model of $0, the fields and NF.
type record struct {
	line       string
	lineIsStr  bool // $0 was assigned/rebuilt by the program (a string), not read from input
	fields     []string
	fieldIsStr []bool
	split      bool   // fields are valid for line
	fs         string // FS in force when the record was set
}

func (in *Interp) setRecord(line string, fromProgram bool) {
	in.rec = record{line: line, lineIsStr: fromProgram, fs: in.fs}
}

// splitFields splits s the AWK way for field separator fs.
func (in *Interp) splitFields(s, fs string) ([]string, error) {
	switch {
	case fs == " ":
		return strings.FieldsFunc(s, func(r rune) bool { return r == ' ' || r == '\t' || r == '\n' }), nil
	case s == "":
		return nil, nil
	case len(fs) == 1:
		return strings.Split(s, fs), nil
	case fs == "":
		return nil, unsupported("empty FS")
	}
	for _, c := range []byte(fs) {
		if c >= 0x80 {
			return nil, unsupported("non-ASCII FS")
		}
	}
	re, err := in.regex(fs)
	if err != nil {
		return nil, err
	}
	var out []string
	prev := 0
	for _, m := range re.FindAllStringIndex(s, -1) {
		if m[0] == m[1] {
			continue // empty matches are ignored
		}
		out = append(out, s[prev:m[0]])
		prev = m[1]
	}
	return append(out, s[prev:]), nil
}

func (in *Interp) ensureFields() error {
	r := &in.rec
	if r.split {
		return nil
	}
	if in.rs == "" {
		return unsupported("paragraph mode field splitting")
	}
	f, err := in.splitFields(r.line, r.fs)
	if err != nil {
		return err
	}
	r.fields = f
	r.fieldIsStr = make([]bool, len(f))
	r.split = true
	return nil
}

func (in *Interp) nf() (int, error) {
	if err := in.ensureFields(); err != nil {
		return 0, err
	}
	return len(in.rec.fields), nil
}

func (in *Interp) getField(i int) (Value, error) {
	r := &in.rec
	if i == 0 {
		if r.lineIsStr {
			return str(r.line), nil
		}
		return numStr(r.line), nil
	}
	if err := in.ensureFields(); err != nil {
		return null(), err
	}
	if i < 0 {
		i = len(r.fields) + 1 + i
		if i < 1 {
			return str(""), nil
		}
	}
	if i > len(r.fields) {
		return str(""), nil
	}
	if r.fieldIsStr[i-1] {
		return str(r.fields[i-1]), nil
	}
	return numStr(r.fields[i-1]), nil
}

const maxFieldIndex = 1000000

func (in *Interp) rebuild() {
	r := &in.rec
	r.line = strings.Join(r.fields, in.ofs)
	r.lineIsStr = true
}

func (in *Interp) setField(i int, s string) error {
	if i == 0 {
		in.setRecord(s, true)
		return nil
	}
	if i > maxFieldIndex {
		return rtError("field index too large")
	}
	if err := in.ensureFields(); err != nil {
		return err
	}
	r := &in.rec
	if i < 0 {
		i = len(r.fields) + 1 + i
		if i < 1 {
			return unsupported("assignment to a negative field index below -NF")
		}
	}
	for len(r.fields) < i {
		r.fields = append(r.fields, "")
		r.fieldIsStr = append(r.fieldIsStr, true)
	}
	r.fields[i-1] = s
	r.fieldIsStr[i-1] = true
	in.rebuild()
	return nil
}

func (in *Interp) setNF(n int) error {
	if n < 0 {
		return rtError("NF set to negative value")
	}
	if n > maxFieldIndex {
		return rtError("NF set too large")
	}
	if err := in.ensureFields(); err != nil {
		return err
	}
	r := &in.rec
	if n < len(r.fields) {
		r.fields = r.fields[:n]
		r.fieldIsStr = r.fieldIsStr[:n]
	}
	for len(r.fields) < n {
		r.fields = append(r.fields, "")
		r.fieldIsStr = append(r.fieldIsStr, false)
	}
	in.rebuild()
	return nil
}

// regex compiles an AWK dynamic regular expression (leftmost-longest, . matches newline).
func (in *Interp) regex(src string) (*regexp.Regexp, error) {
	if re, ok := in.regexCache[src]; ok {
		return re, nil
	}
	re, err := regexp.Compile("(?s:" + src + ")")
	if err != nil {
		return nil, rtError("invalid regex")
	}
	re.Longest()
	if len(in.regexCache) < 500 {
		in.regexCache[src] = re
	}
	return re, nil
}
