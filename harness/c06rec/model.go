// Package c06rec holds the executable record model (REC), the operation-script type, its
// AWK rendering and the script generators of property C06 ("$0, the fields and NF stay
// mutually consistent under every update").
//
// The model is written from the property text, not from goawk's code: it splits EAGERLY
// (a record is split with the FS in force at the moment its text is set), keeps the field
// list as the authority after a field/NF assignment and rebuilds the text with the CURRENT
// OFS (or a CSV encoding), and treats every read as a pure function of the state.  goawk
// splits lazily and caches; the two must agree on everything a program can observe.
package c06rec

import (
	"fmt"
	"math"
	"regexp"
	"strconv"
	"strings"
	"unicode"
	"unicode/utf8"
)

// MaxField is goawk's documented limit on field indexes / NF ("field index too large").
const MaxField = 1000000

// CompactAbove: the dump function prints only $1, $(n/2), $n when NF exceeds this.
const CompactAbove = 300

// ---- script -------------------------------------------------------------------------------

// Idx is a field-index expression. Kind: "lit" (number literal K), "nf" (NF+K), "negnf"
// (-NF+K), "str" (string literal S used as a number), "unset" (a never-assigned variable),
// "var" (variable k assigned K just before).
type Idx struct {
	Kind string  `json:"k"`
	K    float64 `json:"n,omitempty"`
	S    string  `json:"s,omitempty"`
}

// Val is a right-hand side. Kind: "str" (S), "num" (N), "fld" ($I), "nf" (NF).
type Val struct {
	Kind string  `json:"k"`
	S    string  `json:"s,omitempty"`
	N    float64 `json:"n,omitempty"`
	I    *Idx    `json:"i,omitempty"`
}

// Step is one record operation followed by zero or more dumps.
//
//	op        meaning (Form selects the spelling)
//	rd        read $I                       rdnf   read NF
//	setf      $I = V   (Form 1: x = ($I = V))
//	aug       $I Aug N (Form 1: x = ($I Aug N))
//	incr      Form 0 $I++  1 ++$I  2 $I--  3 --$I  4 x = $I++  5 x = ++$I
//	setnf     Form 0 NF = V  1 NF++  2 NF--  3 NF += N  4 NF -= N
//	fs/ofs/omode   FS / OFS / OUTPUTMODE = S
//	sub       Form 0 sub, 1 gsub; target $I, or $0 implicitly when I is nil
//	getline   Form 0 getline  1 getline v  2 getline <F  3 getline v <F  4 getline $I <F
//	          5 getline NF <F  6 getline $I
//	dump      nothing but the dumps
type Step struct {
	Op    string  `json:"op"`
	Form  int     `json:"f,omitempty"`
	I     *Idx    `json:"i,omitempty"`
	V     *Val    `json:"v,omitempty"`
	Aug   string  `json:"aug,omitempty"`
	N     float64 `json:"n,omitempty"`
	S     string  `json:"s,omitempty"`
	Re    string  `json:"re,omitempty"`
	Repl  string  `json:"repl,omitempty"`
	Dumps []int   `json:"d,omitempty"` // dump orders: 0 $0,NF,fields  1 NF,$0,fields  2 $1,NF,$0,fields  3 only $0
}

// Rule is `NR == N { steps }`.
type Rule struct {
	NR    int    `json:"nr"`
	Steps []Step `json:"steps"`
}

// Script is one generated case: a complete AWK program plus its inputs.
type Script struct {
	Gen   string   `json:"gen"`
	Vars  []string `json:"vars,omitempty"` // name, value pairs given as Config.Vars (FS, OFS, OUTPUTMODE only)
	Begin []Step   `json:"begin,omitempty"`
	Rules []Rule   `json:"rules,omitempty"`
	Input []string `json:"input"`          // main input records (joined and terminated by "\n")
	File  []string `json:"file,omitempty"` // lines of the side file read with getline < F
	Wide  bool     `json:"wide,omitempty"` // script contains blanks beyond space/tab/newline (arithmetic on fields is not generated)
}

// Item is one tagged value of the output stream ("\x01" tag value).
type Item struct {
	Tag byte
	Val string
}

func (it Item) String() string { return fmt.Sprintf("%c=%q", it.Tag, it.Val) }

// ParseItems splits goawk's stdout into items.
func ParseItems(out string) ([]Item, string) {
	parts := strings.Split(out, "\x01")
	if parts[0] != "" {
		return nil, "output does not start with an item marker: " + strconv.Quote(clip(parts[0], 80))
	}
	items := make([]Item, 0, len(parts)-1)
	for _, p := range parts[1:] {
		if p == "" {
			return items, "empty item"
		}
		items = append(items, Item{p[0], p[1:]})
	}
	return items, ""
}

func clip(s string, n int) string {
	if len(s) > n {
		return s[:n] + "..."
	}
	return s
}

// ---- quirks ---------------------------------------------------------------------------------
//
// Emulations of already-known goawk defects, used ONLY to give a witness its narrow class: a
// witness is "known" iff the model with that emulation switched on explains the whole observed
// stream.  AmbNFKept is not a defect but an ambiguity switch (see notes/C06.md): every AWK,
// goawk's own tests included, lets NF read back a non-integer or non-numeric value that was
// assigned to it; the property text reads "NF is the number of fields".  Both are accepted.

const (
	QuirkGetlineField = "getline-field-target"      // getline $i [<file] assigns $0 instead of field i
	QuirkHugeAssign   = "huge-index-assign-ignored" // assignment to a field index >= 2^63 is silently dropped
	AmbNFKept         = "nf-assigned-value-kept"    // NF reads back the assigned value, not the field count
)

// Order matters only when several emulations explain a witness (e.g. `getline $(1e30) <f` with no
// dump after it): the first that does gives the class.
var AllQuirks = []string{QuirkHugeAssign, QuirkGetlineField}

// ---- model --------------------------------------------------------------------------------

// Mismatch is the first disagreement between the model and the observed stream.
type Mismatch struct {
	Step   int    // global step number (as printed by the S item)
	Op     string // op kind of that step
	Form   int
	What   string
	Want   string
	Got    string
	ItemNo int
}

// Events is the callback for coverage/counters (may be nil).
type Events interface {
	Count(name string, n int)
	Cover(set, item string)
}

type Model struct {
	Wide   bool            // blank ambiguity switch: blanks = unicode.IsSpace instead of space/tab/newline
	Quirks map[string]bool // known-defect emulation (classification only)
	Ev     Events

	text    string
	pending bool // text is "some valid CSV encoding of fields", not yet observed
	fields  []string
	fs, ofs string
	csv     bool
	sep     rune
	input   []string
	file    []string
	nr      int
	nfKept  bool // AmbNFKept: NF reads as nfShown (the assigned value), not as the count
	nfShown string

	firstAccess bool // the current text has not been looked at since it was set (evidence only)
	unsplit     bool // ... and nothing that needs the fields has happened yet (evidence only)
	fsChanged   bool // FS changed while the record was still unsplit (evidence only)

	check bool
	obs   []Item
	pos   int
	Out   []Item // predict mode: the expected stream
	Mis   *Mismatch
	Stop  string // "", "error" (an error is expected here), "dontcare", "unsupported"
	step  int
	cur   *Step

	QuirkUsed map[string]bool
	Adopted   int
}

func NewModel(wide bool, quirks map[string]bool, ev Events) *Model {
	return &Model{Wide: wide, Quirks: quirks, Ev: ev, fs: " ", ofs: " ", QuirkUsed: map[string]bool{}}
}

func (m *Model) count(name string, n int) {
	if m.Ev != nil {
		m.Ev.Count(name, n)
	}
}
func (m *Model) cover(set, item string) {
	if m.Ev != nil {
		m.Ev.Cover(set, item)
	}
}

func (m *Model) NF() int { return len(m.fields) }

// State is a short description of the model state for messages.
func (m *Model) State() string {
	t := strconv.Quote(m.text)
	if m.pending {
		t = "csv(" + t + "?)"
	}
	return fmt.Sprintf("$0=%s NF=%d fields=%q FS=%q OFS=%q csv=%v", t, len(m.fields), m.fields, m.fs, m.ofs, m.csv)
}

func (m *Model) dead() bool { return m.Mis != nil || m.Stop != "" }

func (m *Model) mismatch(what, want, got string) {
	if m.Mis != nil {
		return
	}
	mm := &Mismatch{Step: m.step, What: what, Want: want, Got: got, ItemNo: m.pos}
	if m.cur != nil {
		mm.Op, mm.Form = m.cur.Op, m.cur.Form
	}
	m.Mis = mm
}

// emit states that the program prints item (tag, want) now. wild: any value is accepted.
func (m *Model) emit(tag byte, want string, wild bool) {
	if m.dead() {
		return
	}
	if !m.check {
		if wild {
			want = "<any>"
		}
		m.Out = append(m.Out, Item{tag, want})
		return
	}
	if m.pos >= len(m.obs) {
		m.mismatch(fmt.Sprintf("output ended where item %c was expected", tag), want, "<end of output>")
		return
	}
	got := m.obs[m.pos]
	m.pos++
	if got.Tag != tag {
		m.mismatch(fmt.Sprintf("item %c expected, item %c printed", tag, got.Tag), want, got.Val)
		return
	}
	if !wild && got.Val != want {
		m.mismatch("item "+tagName(tag), want, got.Val)
	}
}

func tagName(tag byte) string {
	switch tag {
	case 'Z':
		return "$0"
	case 'N':
		return "NF"
	case 'f':
		return "$i (field loop)"
	case 'G':
		return "$1 (read before NF)"
	case 'P':
		return "$(NF+1)"
	case 'L':
		return "$-1"
	case 'M':
		return "$(-NF)"
	case 'R':
		return "value read / returned by the operation"
	case 'S':
		return "step marker"
	}
	return string(tag)
}

// emitText states that $0 is printed (tag Z or R). While the text is a not-yet-observed CSV
// rebuild, the observed value is accepted iff it decodes to exactly the fields, and adopted.
func (m *Model) emitText(tag byte) {
	if m.dead() {
		return
	}
	m.touch("$0")
	if !m.pending || !m.check {
		m.emit(tag, m.text, false)
		return
	}
	if m.pos >= len(m.obs) {
		m.emit(tag, m.text, false)
		return
	}
	got := m.obs[m.pos]
	if got.Tag != tag {
		m.emit(tag, m.text, false)
		return
	}
	m.pos++
	if !CSVDecodesTo(got.Val, m.sep, m.fields) {
		m.mismatch("$0 after a rebuild in CSV output mode is not a CSV encoding of the fields",
			fmt.Sprintf("an encoding of %q with separator %q, e.g. %q", m.fields, m.sep, m.text), got.Val)
		return
	}
	m.text = got.Val
	m.pending = false
	m.Adopted++
}

// needText is called when an operation consumes the text of $0 without printing it.
func (m *Model) needText() string {
	if m.pending && m.check {
		m.Stop = "unsupported"
	}
	m.touch("$0-use")
	return m.text
}

// touch records how a freshly set record is first looked at (evidence only): "$0"/"$0-use"
// do not need the fields, every other kind does (that is where a lazy implementation splits).
func (m *Model) touch(kind string) {
	if m.firstAccess {
		m.firstAccess = false
		m.cover("first_access", kind)
	}
	if kind == "$0" || kind == "$0-use" {
		return
	}
	if m.unsplit {
		m.unsplit = false
		if m.fsChanged {
			m.count("fs_changed_before_first_field_access", 1)
			m.cover("first_field_access_after_fs_change", kind)
		}
	}
	m.fsChanged = false
}

// ---- splitting (the FS rules of the property) -----------------------------------------------

func (m *Model) isBlank(r rune) bool {
	if m.Wide {
		return unicode.IsSpace(r)
	}
	return r == ' ' || r == '\t' || r == '\n'
}

var reCache = map[string]*regexp.Regexp{}

func fsRegexp(fs string) *regexp.Regexp {
	if re, ok := reCache[fs]; ok {
		return re
	}
	re, err := regexp.Compile("(?s:" + fs + ")")
	if err == nil {
		re.Longest()
	} else {
		re = nil
	}
	reCache[fs] = re
	return re
}

// Split splits text by the rules of the property for separator fs.
func (m *Model) Split(text, fs string) []string {
	var out []string
	switch {
	case fs == " ":
		// runs of blanks separate; leading and trailing blanks are ignored
		start := -1
		for i, r := range text {
			if m.isBlank(r) { // an invalid byte decodes to U+FFFD, which is not a blank
				if start >= 0 {
					out = append(out, text[start:i])
					start = -1
				}
			} else if start < 0 {
				start = i
			}
		}
		if start >= 0 {
			out = append(out, text[start:])
		}
	case text == "":
		// an empty record has no fields
	case utf8.RuneCountInString(fs) == 1:
		// any other single character is literal
		for {
			i := strings.Index(text, fs)
			if i < 0 {
				break
			}
			out = append(out, text[:i])
			text = text[i+len(fs):]
		}
		out = append(out, text)
	default:
		// regular expression, leftmost-longest, empty matches ignored
		re := fsRegexp(fs)
		if re == nil {
			m.Stop = "unsupported"
			return nil
		}
		prev := 0
		for _, loc := range re.FindAllStringIndex(text, -1) {
			if loc[0] == loc[1] {
				continue
			}
			out = append(out, text[prev:loc[0]])
			prev = loc[1]
		}
		out = append(out, text[prev:])
	}
	return out
}

func (m *Model) fsKind() string {
	switch {
	case m.fs == " ":
		return "space"
	case m.fs == "\t":
		return "tab"
	case utf8.RuneCountInString(m.fs) == 1 && len(m.fs) > 1:
		return "multibyte-char"
	case len(m.fs) == 1 && strings.ContainsAny(m.fs, `.|*+?()[]\^$`):
		return "single-metachar"
	case len(m.fs) == 1:
		return "single-char"
	default:
		if re := fsRegexp(m.fs); re != nil && re.MatchString("") {
			return "regex-can-match-empty"
		}
		if strings.Contains(m.fs, "|") {
			return "regex-alternation"
		}
		return "regex"
	}
}

// setText is "$0 gets a new text": re-split with the FS now in force.
func (m *Model) setText(s string) {
	m.text = s
	m.pending = false
	m.fields = m.Split(s, m.fs)
	m.nfKept = false
	m.firstAccess = true
	m.unsplit = true
	m.fsChanged = false
	m.count("resplits", 1)
	m.cover("split_fs_kinds", m.fsKind())
	m.cover("split_nf", bucket(len(m.fields)))
}

func bucket(n int) string {
	switch {
	case n <= 4:
		return strconv.Itoa(n)
	case n <= 8:
		return "5-8"
	case n <= 50:
		return "9-50"
	case n <= CompactAbove:
		return "51-300"
	}
	return ">300"
}

// rebuild is "$0 is rebuilt from the fields" with the current OFS / CSV encoding.
func (m *Model) rebuild() {
	if m.csv {
		m.text = CSVEncode(m.fields, m.sep)
		m.pending = len(m.fields) > 0
		m.count("rebuilds_csv", 1)
	} else {
		m.text = strings.Join(m.fields, m.ofs)
		m.pending = false
		m.count("rebuilds_ofs", 1)
		m.cover("rebuild_ofs", m.ofs)
	}
	m.firstAccess = false
}

// ---- numbers -------------------------------------------------------------------------------

// num is the string->number conversion under the model's blank setting: with Wide, the
// blanks skipped before a number are all of ASCII white space (same ambiguity switch as the
// blanks of the default FS; which control characters count is C05's don't-care).
func (m *Model) num(s string) float64 {
	if m.Wide {
		s = strings.TrimLeft(s, " \t\n\v\f\r")
	}
	return NumPrefix(s)
}

// NumPrefix is the AWK string->number conversion: the longest decimal floating prefix after
// leading blanks (space, tab, newline), 0 if none.
func NumPrefix(s string) float64 {
	i := 0
	for i < len(s) && (s[i] == ' ' || s[i] == '\t' || s[i] == '\n') {
		i++
	}
	start := i
	if i < len(s) && (s[i] == '+' || s[i] == '-') {
		i++
	}
	digits := 0
	for i < len(s) && s[i] >= '0' && s[i] <= '9' {
		i++
		digits++
	}
	if i < len(s) && s[i] == '.' {
		i++
		for i < len(s) && s[i] >= '0' && s[i] <= '9' {
			i++
			digits++
		}
	}
	if digits == 0 {
		return 0
	}
	end := i
	if i < len(s) && (s[i] == 'e' || s[i] == 'E') {
		j := i + 1
		if j < len(s) && (s[j] == '+' || s[j] == '-') {
			j++
		}
		k := j
		for k < len(s) && s[k] >= '0' && s[k] <= '9' {
			k++
		}
		if k > j {
			end = k
		}
	}
	f, _ := strconv.ParseFloat(s[start:end], 64)
	return f
}

// looksNumeric: the whole string (blanks aside) is a decimal number.
func looksNumeric(s string) bool {
	t := strings.Trim(s, " \t\n")
	if t == "" {
		return false
	}
	_, err := strconv.ParseFloat(t, 64)
	return err == nil && !strings.ContainsAny(t, "xXnNiIpP_")
}

// NumToStr is the AWK number->string conversion with CONVFMT="%.6g".
func NumToStr(v float64) string {
	if v == math.Trunc(v) && math.Abs(v) < 1e18 {
		return strconv.FormatInt(int64(v), 10)
	}
	return strconv.FormatFloat(v, 'g', 6, 64)
}

// ---- CSV -----------------------------------------------------------------------------------

// CSVEncode is a prediction of the rebuilt text (used for generation and messages only; the
// check accepts every valid encoding): RFC 4180 quoting, plus quotes around a field that
// starts with white space, as encoding/csv writes it.
func CSVEncode(fields []string, sep rune) string {
	var b strings.Builder
	for i, f := range fields {
		if i > 0 {
			b.WriteRune(sep)
		}
		r, _ := utf8.DecodeRuneInString(f)
		if strings.ContainsRune(f, sep) || strings.ContainsAny(f, "\"\r\n") || (f != "" && unicode.IsSpace(r)) || f == `\.` {
			b.WriteByte('"')
			b.WriteString(strings.ReplaceAll(f, `"`, `""`))
			b.WriteByte('"')
		} else {
			b.WriteString(f)
		}
	}
	return b.String()
}

// CSVDecodesTo reports whether text is an RFC 4180 encoding (separator sep) of exactly
// fields. Zero fields and the single empty field are both written as the empty text.
func CSVDecodesTo(text string, sep rune, fields []string) bool {
	if len(fields) == 0 {
		return text == ""
	}
	if len(fields) == 1 && fields[0] == "" && text == "" {
		return true
	}
	var got []string
	i := 0
	sepS := string(sep)
	for {
		var f strings.Builder
		if i < len(text) && text[i] == '"' {
			i++
			closed := false
			for i < len(text) {
				if text[i] == '"' {
					if i+1 < len(text) && text[i+1] == '"' {
						f.WriteByte('"')
						i += 2
						continue
					}
					i++
					closed = true
					break
				}
				f.WriteByte(text[i])
				i++
			}
			if !closed {
				return false
			}
		} else {
			for i < len(text) && !strings.HasPrefix(text[i:], sepS) {
				if text[i] == '"' || text[i] == '\n' || text[i] == '\r' {
					return false // these must be quoted
				}
				f.WriteByte(text[i])
				i++
			}
		}
		got = append(got, f.String())
		if i == len(text) {
			break
		}
		if !strings.HasPrefix(text[i:], sepS) {
			return false
		}
		i += len(sepS)
	}
	if len(got) != len(fields) {
		return false
	}
	for k := range got {
		if got[k] != fields[k] {
			return false
		}
	}
	return true
}

// ParseOutputMode understands the OUTPUTMODE values the generator produces.
func ParseOutputMode(s string) (csv bool, sep rune, ok bool) {
	parts := strings.Fields(s)
	if len(parts) == 0 {
		return false, 0, true
	}
	switch parts[0] {
	case "csv":
		csv, sep = true, ','
	case "tsv":
		csv, sep = true, '\t'
	default:
		return false, 0, false
	}
	for _, p := range parts[1:] {
		if !strings.HasPrefix(p, "separator=") {
			return false, 0, false
		}
		v := strings.TrimPrefix(p, "separator=")
		r, n := utf8.DecodeRuneInString(v)
		if n == 0 || n != len(v) {
			return false, 0, false
		}
		sep = r
	}
	return csv, sep, true
}

// ---- field access ----------------------------------------------------------------------------

// nfNum is NF as a number (the count; under QuirkNFKept the value that was assigned).
func (m *Model) nfNum() float64 {
	if m.nfKept {
		return m.num(m.nfShown)
	}
	return float64(len(m.fields))
}

func (m *Model) nfStr() string {
	if m.nfKept {
		return m.nfShown
	}
	return strconv.Itoa(len(m.fields))
}

// evalIdx evaluates an index expression to a number.
func (m *Model) evalIdx(ix *Idx) float64 {
	switch ix.Kind {
	case "lit", "var":
		return ix.K
	case "nf":
		m.touch("NF")
		return m.nfNum() + ix.K
	case "negnf":
		m.touch("NF")
		return -m.nfNum() + ix.K
	case "str":
		return m.num(ix.S)
	case "unset":
		return 0
	}
	m.Stop = "unsupported"
	return 0
}

// IdxClass classifies an evaluated index against NF (coverage and generation).
func IdxClass(v float64, nf int) string {
	t := math.Trunc(v)
	switch {
	case t >= 9.2e18:
		return "huge>=2^63"
	case t <= -9.2e18:
		return "huge-negative"
	case t > MaxField:
		return "above-limit"
	case t == 0:
		return "zero"
	case t > 0 && int(t) < nf:
		return "inside"
	case t > 0 && int(t) == nf:
		return "last"
	case int(t) == nf+1:
		return "NF+1"
	case t > 0:
		return "beyond"
	case int(-t) < nf:
		return "negative-inside"
	case int(-t) == nf:
		return "negative-first"
	}
	return "below-minus-NF"
}

// getField is "the value of $v". defined=false: the property does not say (below -NF).
func (m *Model) getField(v float64) (s string, defined bool) {
	cl := IdxClass(v, len(m.fields))
	switch cl {
	case "huge>=2^63", "above-limit":
		m.touch("field")
		return "", true // past NF reads as empty
	case "huge-negative", "below-minus-NF":
		m.touch("field")
		return "", false
	case "zero":
		return m.needText(), true
	}
	m.touch("field")
	i := int(math.Trunc(v))
	if i < 0 {
		i = len(m.fields) + 1 + i
	}
	if i > len(m.fields) {
		return "", true
	}
	return m.fields[i-1], true
}

// setField is "$v = s".
func (m *Model) setField(v float64, s string) {
	cl := IdxClass(v, len(m.fields))
	m.cover("assign_index_classes", cl)
	switch cl {
	case "zero":
		m.setText(s)
		return
	case "huge>=2^63":
		if m.Quirks[QuirkHugeAssign] {
			m.QuirkUsed[QuirkHugeAssign] = true
			return
		}
		m.Stop = "error"
		return
	case "above-limit":
		m.Stop = "error"
		return
	case "huge-negative", "below-minus-NF":
		m.Stop = "dontcare"
		return
	}
	m.touch("assign")
	i := int(math.Trunc(v))
	if i < 0 {
		i = len(m.fields) + 1 + i
	}
	if i > len(m.fields) {
		m.count("field_extends", 1)
		if i > len(m.fields)+1 {
			m.count("field_extends_with_gap", 1)
		}
	}
	for len(m.fields) < i {
		m.fields = append(m.fields, "")
	}
	m.fields[i-1] = s
	m.nfKept = false
	m.rebuild()
}

// setNF is "NF = v" (shown: the string form of the assigned value, for QuirkNFKept).
func (m *Model) setNF(v float64, shown string) {
	n := math.Trunc(v)
	if n < 0 || n > MaxField || math.IsNaN(n) {
		m.Stop = "error"
		return
	}
	m.touch("assign-NF")
	k := int(n)
	switch {
	case k == 0:
		m.count("nf_set_zero", 1)
	case k < len(m.fields):
		m.count("nf_shrink", 1)
	case k > len(m.fields):
		m.count("nf_grow", 1)
	default:
		m.count("nf_same", 1)
	}
	if k < len(m.fields) {
		m.fields = m.fields[:k:k]
	}
	for len(m.fields) < k {
		m.fields = append(m.fields, "")
	}
	m.nfKept = false
	if shown != strconv.Itoa(k) {
		// The assigned value is not the decimal spelling of the new field count (NF = 2.7,
		// NF = "3x", NF = ""): whether NF then reads as the count or as the value assigned is
		// an ambiguity switch (see AmbNFKept).
		m.count("nf_assigned_non_canonical", 1)
		if m.Quirks[AmbNFKept] {
			m.nfKept, m.nfShown = true, shown
			m.QuirkUsed[AmbNFKept] = true
		}
	}
	m.rebuild()
}

func (m *Model) valString(v *Val) (string, bool) {
	switch v.Kind {
	case "str":
		return v.S, true
	case "num":
		return NumToStr(v.N), true
	case "nf":
		m.touch("NF")
		return m.nfStr(), true
	case "fld":
		return m.getField(m.evalIdx(v.I))
	}
	m.Stop = "unsupported"
	return "", true
}

// ---- steps -----------------------------------------------------------------------------------

func augApply(op string, l, r float64) float64 {
	switch op {
	case "+=":
		return l + r
	case "-=":
		return l - r
	case "*=":
		return l * r
	case "/=":
		return l / r
	case "%=":
		return math.Mod(l, r)
	}
	return math.NaN()
}

// nextLine pops the next record of the main input or of the side file.
func (m *Model) nextLine(fromFile bool) (string, bool) {
	q := &m.input
	if fromFile {
		q = &m.file
	}
	if len(*q) == 0 {
		return "", false
	}
	l := (*q)[0]
	*q = (*q)[1:]
	if !fromFile {
		m.nr++
	}
	return l, true
}

// Apply executes one step: the S marker, the operation, its dumps.
func (m *Model) Apply(st *Step, id int) {
	if m.dead() {
		return
	}
	m.step, m.cur = id, st
	m.emit('S', strconv.Itoa(id), false)
	m.cover("ops", fmt.Sprintf("%s/%d", st.Op, st.Form))
	switch st.Op {
	case "rd":
		v := m.evalIdx(st.I)
		m.cover("read_index_classes", IdxClass(v, len(m.fields)))
		if IdxClass(v, len(m.fields)) == "zero" {
			m.emitText('R')
		} else {
			s, def := m.getField(v)
			m.emit('R', s, !def)
		}
	case "rdnf":
		m.touch("NF")
		m.emit('R', m.nfStr(), false)
	case "setf":
		s, def := m.valString(st.V)
		if !def {
			m.Stop = "dontcare"
			return
		}
		m.setField(m.evalIdx(st.I), s)
		if st.Form == 1 {
			m.emit('R', s, false)
		}
	case "aug":
		ix := m.evalIdx(st.I)
		old, def := m.getField(ix)
		if !def {
			m.Stop = "dontcare"
			return
		}
		res := augApply(st.Aug, m.num(old), st.N)
		m.setField(ix, NumToStr(res))
		if st.Form == 1 {
			m.emit('R', NumToStr(res), false)
		}
	case "incr":
		ix := m.evalIdx(st.I)
		old, def := m.getField(ix)
		if !def {
			m.Stop = "dontcare"
			return
		}
		o := m.num(old)
		d := 1.0
		if st.Form == 2 || st.Form == 3 {
			d = -1
		}
		m.setField(ix, NumToStr(o+d))
		switch st.Form {
		case 4:
			m.emit('R', NumToStr(o), false)
		case 5:
			m.emit('R', NumToStr(o+d), false)
		}
	case "setnf":
		m.touch("NF")
		switch st.Form {
		case 0:
			s, def := m.valString(st.V)
			if !def {
				m.Stop = "dontcare"
				return
			}
			n := m.num(s)
			if st.V.Kind == "num" {
				n = st.V.N
			}
			m.setNF(n, s)
		case 1:
			m.setNF(m.nfNum()+1, NumToStr(m.nfNum()+1))
		case 2:
			m.setNF(m.nfNum()-1, NumToStr(m.nfNum()-1))
		case 3:
			m.setNF(m.nfNum()+st.N, NumToStr(m.nfNum()+st.N))
		case 4:
			m.setNF(m.nfNum()-st.N, NumToStr(m.nfNum()-st.N))
		}
	case "fs":
		if m.fs != st.S && m.unsplit {
			m.fsChanged = true
		}
		m.fs = st.S
		m.cover("fs_values_set", st.S)
		if utf8.RuneCountInString(st.S) > 1 && fsRegexp(st.S) == nil {
			m.Stop = "unsupported"
		}
		if st.S == "" {
			m.Stop = "dontcare"
		}
	case "ofs":
		m.ofs = st.S
	case "omode":
		csv, sep, ok := ParseOutputMode(st.S)
		if !ok {
			m.Stop = "unsupported"
			return
		}
		m.csv, m.sep = csv, sep
		m.cover("output_modes", st.S)
	case "sub":
		re := fsRegexp(st.Re)
		if re == nil || re.MatchString("") {
			m.Stop = "unsupported"
			return
		}
		var ix float64
		if st.I != nil {
			ix = m.evalIdx(st.I)
		}
		old, def := m.getField(ix)
		if !def {
			m.Stop = "dontcare"
			return
		}
		if m.Stop != "" {
			return
		}
		n := 0
		var res string
		if st.Form == 1 {
			locs := re.FindAllStringIndex(old, -1)
			n = len(locs)
			res = re.ReplaceAllLiteralString(old, st.Repl)
		} else if loc := re.FindStringIndex(old); loc != nil {
			n = 1
			res = old[:loc[0]] + st.Repl + old[loc[1]:]
		}
		if n > 0 {
			m.count("sub_matched", 1)
			m.setField(ix, res)
		} else {
			// no match: nothing is assigned, so nothing is rebuilt, extended or re-split
			m.count("sub_no_match", 1)
			m.cover("sub_no_match_index_classes", IdxClass(ix, len(m.fields)))
		}
		m.emit('R', strconv.Itoa(n), false)
	case "getline":
		fromFile := st.Form >= 2 && st.Form <= 5
		var ix float64
		if st.Form == 4 || st.Form == 6 {
			ix = m.evalIdx(st.I)
		}
		line, ok := m.nextLine(fromFile)
		if !ok {
			m.count("getline_eof", 1)
			m.emit('R', "0", false)
			if st.Form == 1 || st.Form == 3 {
				m.emit('R', "", false)
			}
			break
		}
		switch st.Form {
		case 0, 2:
			m.setText(line)
		case 1, 3:
			// only the variable changes
		case 4, 6:
			if m.Quirks[QuirkGetlineField] && IdxClass(ix, len(m.fields)) != "zero" {
				m.QuirkUsed[QuirkGetlineField] = true
				m.setText(line)
			} else {
				m.setField(ix, line)
			}
		case 5:
			m.setNF(m.num(line), line)
		}
		m.emit('R', "1", false)
		if st.Form == 1 || st.Form == 3 {
			m.emit('R', line, false)
		}
	case "dump":
	default:
		m.Stop = "unsupported"
	}
	for _, o := range st.Dumps {
		m.dump(o)
	}
}

// dump mirrors the AWK function D of the rendered program.
func (m *Model) dump(order int) {
	if m.dead() {
		return
	}
	m.count("dumps", 1)
	nf := len(m.fields)
	first := func() string {
		if nf > 0 {
			return m.fields[0]
		}
		return ""
	}
	switch order {
	case 3:
		m.emitText('Z')
		return
	case 0:
		m.emitText('Z')
		m.touch("NF")
		m.emit('N', m.nfStr(), false)
	case 1:
		m.touch("NF")
		m.emit('N', m.nfStr(), false)
		m.emitText('Z')
	default:
		m.touch("field")
		m.emit('G', first(), false)
		m.emit('N', m.nfStr(), false)
		m.emitText('Z')
	}
	m.count("full_dumps", 1)
	if nf > CompactAbove {
		m.emit('f', m.fields[0], false)
		m.emit('f', m.fields[nf/2-1], false)
		m.emit('f', m.fields[nf-1], false)
	} else {
		for _, f := range m.fields {
			m.emit('f', f, false)
		}
	}
	m.emit('P', "", false)
	if nf > 0 {
		m.emit('L', m.fields[nf-1], false)
		m.emit('M', m.fields[0], false)
	} else {
		m.emit('L', "", true) // $-1 with no fields: below -NF, the property does not say
		m.emitText('M')       // $(-0) is $0
	}
	m.emitText('Z')
	m.emit('N', m.nfStr(), false)
}

// Init loads the inputs and the Config.Vars assignments of a script.
func (m *Model) Init(s *Script) {
	m.input = append([]string(nil), s.Input...)
	m.file = append([]string(nil), s.File...)
	for i := 0; i+1 < len(s.Vars); i += 2 {
		switch s.Vars[i] {
		case "FS":
			m.fs = s.Vars[i+1]
		case "OFS":
			m.ofs = s.Vars[i+1]
		case "OUTPUTMODE":
			m.csv, m.sep, _ = ParseOutputMode(s.Vars[i+1])
		}
	}
}

// NextMainRecord is the main loop reading the next record (false at end of input).
func (m *Model) NextMainRecord() bool {
	line, ok := m.nextLine(false)
	if !ok {
		return false
	}
	m.setText(line)
	return true
}

// Accessors used by the generators.
func (m *Model) Dead() bool       { return m.dead() }
func (m *Model) NR() int          { return m.nr }
func (m *Model) FS() string       { return m.fs }
func (m *Model) CSV() bool        { return m.csv }
func (m *Model) Fields() []string { return m.fields }
func (m *Model) InputLeft() int   { return len(m.input) }
func (m *Model) FileLeft() int    { return len(m.file) }

// PeekFile returns the next line of the side file.
func (m *Model) PeekFile() (string, bool) {
	if len(m.file) == 0 {
		return "", false
	}
	return m.file[0], true
}

// ---- whole script ------------------------------------------------------------------------------

// Result of running the model over a script.
type Result struct {
	Mis       *Mismatch
	Stop      string // how the model ended: "", "error", "dontcare", "unsupported"
	StopStep  int
	StopOp    string // "op/form" of the last step applied
	Steps     int    // steps applied
	Items     int    // items compared (check mode) or produced
	Out       []Item
	QuirkUsed map[string]bool
	Adopted   int
	Leftover  int    // observed items never consumed
	State     string // model state, filled in only when there is a mismatch
}

// Run runs the model over the script. obs == nil: predict mode (Result.Out is the expected
// stream). Otherwise the observed items are compared step by step.
func Run(s *Script, wide bool, quirks map[string]bool, obs []Item, ev Events) Result {
	m := NewModel(wide, quirks, ev)
	if obs != nil {
		m.check, m.obs = true, obs
	}
	m.Init(s)
	id := 0
	steps := 0
	runSteps := func(l []Step) {
		for i := range l {
			id++
			if m.dead() {
				continue // keep numbering aligned with the rendering
			}
			m.Apply(&l[i], id)
			steps++
		}
	}
	// step ids are assigned in program-text order: BEGIN first, then the rules in order
	runSteps(s.Begin)
	base := map[int]int{}
	for ri := range s.Rules {
		base[ri] = id
		id += len(s.Rules[ri].Steps)
	}
	if len(s.Rules) > 0 {
		for !m.dead() && m.NextMainRecord() {
			for ri := range s.Rules {
				if s.Rules[ri].NR != m.nr || m.dead() {
					continue
				}
				id = base[ri]
				runSteps(s.Rules[ri].Steps)
			}
		}
	}
	r := Result{Mis: m.Mis, Stop: m.Stop, StopStep: m.step, Steps: steps, Out: m.Out, QuirkUsed: m.QuirkUsed, Adopted: m.Adopted}
	if m.Mis != nil {
		r.State = m.State()
	}
	if m.cur != nil {
		r.StopOp = fmt.Sprintf("%s/%d", m.cur.Op, m.cur.Form)
	}
	if m.check {
		r.Items = m.pos
		r.Leftover = len(m.obs) - m.pos
	} else {
		r.Items = len(m.Out)
	}
	return r
}

// FormatItems renders an item stream for messages, one step per line.
func FormatItems(items []Item) string {
	var b strings.Builder
	for _, it := range items {
		if it.Tag == 'S' {
			if b.Len() > 0 {
				b.WriteByte('\n')
			}
			b.WriteString("step " + it.Val + ":")
			continue
		}
		b.WriteString(" " + it.String())
	}
	return b.String()
}
