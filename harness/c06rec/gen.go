package c06rec

import (
	"math/rand"
	"strings"
)

// ---- pools -----------------------------------------------------------------------------------
//
// No text contains \001 (the item marker).  Letters are limited to a-d and é so that no field
// can spell inf/nan/0x... (number parsing of those is C05's subject, not this property's).

type theme struct {
	name string
	seps []string // separators used inside record texts
	fss  []string // FS values that do something on those records
	toks []string
}

var wordToks = []string{"a", "b", "c", "ab", "abc", "d", "bcd", "aa", "ba", "é", "dé"}
var numToks = []string{"10", "-3", "2.5", "007", "1e2", ".5", "+4", "0", "3", "12"}

var themes = []theme{
	{"blanks", []string{" ", " ", "  ", "\t", " \t ", "   "}, []string{" ", " ", "\t", " +", "[ ]", "[ \t]+", " *", "\t+", " |\t"}, nil},
	{"comma", []string{",", ",", ",,", ", ", " ,", ";"}, []string{",", ",", ", *", ",+", ",*", ",|;", "[,;:]", " *, *", ";"}, nil},
	{"punct", []string{";", ":", "|", "-", "::", ".", "*"}, []string{";", ":", "|", `\|`, "-", "::", ":+", "[;:|]", ".", "*", `\.`, "[.]", ":|::", "::|:"}, nil},
	{"letters", []string{"a", "ab", "abc", "b", "ba"}, []string{"a", "b", "ab|a", "a|ab", "(a|ab)(c|bcd)?", "b*", "ab", "a+", "a*b", "[ab]", "d*", "()", "ab?"},
		[]string{"c", "d", "1", "cd", "dc", "22", "é"}},
	{"multibyte", []string{"é", "→", "éé", " "}, []string{"é", "→", "é+", "é|→", " ", "é*"}, []string{"a", "b", "10", "cd", "d"}},
}

var wideSeps = []string{"\v", "\f", "\r", "\u00a0", "\u2003", "\u0085", "\u3000", " \r", "\t\v", "\u00a0 "}

var ofsPool = []string{" ", "-", "", "::", ",", "\t", " - ", "é", ";", "  ", "ab"}
var omodePool = []string{"csv", "csv", "tsv", "csv separator=;", "csv separator=|", "", "tsv separator=,"}
var subRes = []string{"a", "b+", "[0-9]+", " ", ",", "c$", "^a", "[ab]", "-", "é", ":", "d", "a|ab", "zz", "[ \t]+"}
var subRepls = []string{"Q", "", "zz", "1", " ", ",", "7 7", "a", "é", "Q,Q", ":"}

type gen struct {
	rng *rand.Rand
	m   *Model
	s   *Script
	th  theme
	th2 theme
}

func (g *gen) pick(l []string) string { return l[g.rng.Intn(len(l))] }

func (g *gen) token() string {
	toks := g.th.toks
	if toks == nil || g.rng.Intn(4) == 0 {
		if g.rng.Intn(3) == 0 {
			return g.pick(numToks)
		}
		return g.pick(wordToks)
	}
	return g.pick(toks)
}

func (g *gen) sep() string {
	if g.s.Wide && g.rng.Intn(3) == 0 {
		return g.pick(wideSeps)
	}
	if g.rng.Intn(5) == 0 {
		return g.pick(g.th2.seps)
	}
	return g.pick(g.th.seps)
}

// record builds a record text: tokens joined by separators of the script's themes, with
// optional leading/trailing separators; sometimes empty, only separators, or very long.
func (g *gen) record() string {
	switch r := g.rng.Intn(100); {
	case r < 5:
		return ""
	case r < 9:
		return g.sep() + g.sep()
	case r < 10:
		n := CompactAbove + 1 + g.rng.Intn(200)
		parts := make([]string, n)
		for i := range parts {
			parts[i] = g.token()
		}
		return strings.Join(parts, g.pick(g.th.seps))
	}
	var b strings.Builder
	if g.rng.Intn(4) == 0 {
		b.WriteString(g.sep())
	}
	n := 1 + g.rng.Intn(6)
	for i := 0; i < n; i++ {
		if i > 0 {
			b.WriteString(g.sep())
		}
		if g.rng.Intn(12) != 0 { // sometimes an empty token: adjacent separators
			b.WriteString(g.token())
		}
	}
	if g.rng.Intn(4) == 0 {
		b.WriteString(g.sep())
	}
	return b.String()
}

// value builds a string to assign to a field.
func (g *gen) value() string {
	switch r := g.rng.Intn(100); {
	case r < 8:
		return ""
	case r < 50:
		return g.token()
	case r < 70:
		return g.token() + g.sep() + g.token() // contains a separator: must NOT be re-split
	case r < 76:
		return g.sep()
	case r < 82:
		return `a"b`
	case r < 86:
		return "a\nb"
	case r < 90:
		return " " + g.token()
	case r < 93:
		return `\.`
	}
	return g.pick(numToks)
}

func (g *gen) fsValue() string {
	switch r := g.rng.Intn(10); {
	case r < 6:
		return g.pick(g.th.fss)
	case r < 8:
		return g.pick(g.th2.fss)
	case r < 9:
		return " "
	}
	t := themes[g.rng.Intn(len(themes))]
	return g.pick(t.fss)
}

// index picks an index expression. assign: exclude what the property leaves open for
// assignment (below -NF) and keep the error-ending classes rare.
func (g *gen) index(assign bool) *Idx {
	nf := g.m.NF()
	lit := func(k float64) *Idx {
		if g.rng.Intn(8) == 0 {
			return &Idx{Kind: "var", K: k}
		}
		return &Idx{Kind: "lit", K: k}
	}
	for {
		var ix *Idx
		switch r := g.rng.Intn(1000); {
		case r < 300: // inside / last, literal
			if nf == 0 {
				continue
			}
			ix = lit(float64(1 + g.rng.Intn(nf)))
		case r < 380:
			ix = &Idx{Kind: "nf"} // $NF
		case r < 470:
			ix = &Idx{Kind: "nf", K: 1}
		case r < 520:
			ix = &Idx{Kind: "nf", K: float64(2 + g.rng.Intn(4))}
		case r < 560:
			ix = lit(float64(nf + 1 + g.rng.Intn(6)))
		case r < 575:
			ix = lit(float64([]int{50, 301, 400, 1000}[g.rng.Intn(4)]))
		case r < 640:
			ix = lit(0)
		case r < 700:
			ix = lit(-1)
		case r < 740:
			ix = &Idx{Kind: "negnf"} // $(-NF): the first field ($0 when NF is 0)
		case r < 780:
			if nf < 2 {
				continue
			}
			ix = lit(-float64(1 + g.rng.Intn(nf)))
		case r < 800:
			ix = &Idx{Kind: "negnf", K: 1}
		case r < 820:
			ix = &Idx{Kind: "nf", K: -1}
		case r < 860: // fractional: truncates
			ix = lit(float64(g.rng.Intn(nf+2)) + []float64{0.5, 0.9, 0.25}[g.rng.Intn(3)])
		case r < 900:
			ix = &Idx{Kind: "str", S: []string{"2", "1", " 1", "2abc", "", "abc", "3.9", "+2"}[g.rng.Intn(8)]}
		case r < 930:
			ix = &Idx{Kind: "unset"}
		case r < 950: // below -NF: reads only
			ix = lit(-float64(nf + 1 + g.rng.Intn(3)))
		case r < 974:
			ix = lit([]float64{MaxField + 1, 2147483648, 1e18}[g.rng.Intn(3)])
		case r < 982:
			ix = lit([]float64{1e19, 1e30}[g.rng.Intn(2)])
		case r < 990:
			ix = lit(-1e30)
		default:
			ix = lit(-0.5) // truncates to 0
		}
		cl := IdxClass(g.m.evalIdx(ix), nf)
		if assign {
			switch cl {
			case "below-minus-NF", "huge-negative":
				continue
			case "above-limit", "huge>=2^63":
				if g.rng.Intn(3) != 0 {
					continue
				}
			}
		}
		return ix
	}
}

// valIndex is an index for a right-hand side (the helper variable k belongs to the target).
func (g *gen) valIndex() *Idx {
	ix := g.index(false)
	if ix.Kind == "var" {
		ix.Kind = "lit"
	}
	return ix
}

func (g *gen) dumps() []int {
	full := func() int { return g.rng.Intn(3) }
	switch r := g.rng.Intn(100); {
	case r < 18:
		if g.m.CSV() {
			return []int{full()} // a CSV rebuild must be observed before its text is used
		}
		return nil
	case r < 26:
		return []int{3}
	case r < 86:
		return []int{full()}
	case r < 93:
		return []int{full(), full()}
	default:
		return []int{3, full()}
	}
}

// step generates the next step from the current (predicted) model state.
func (g *gen) step() Step {
	st := Step{}
	nf := g.m.NF()
	switch r := g.rng.Intn(100); {
	case r < 8:
		st.Op, st.I = "rd", g.index(false)
	case r < 11:
		st.Op = "rdnf"
	case r < 29:
		st.Op, st.I = "setf", g.index(true)
		st.V = g.val()
		if g.rng.Intn(8) == 0 {
			st.Form = 1
		}
	case r < 37: // $0 = ...
		st.Op, st.I = "setf", &Idx{Kind: "lit", K: 0}
		switch g.rng.Intn(10) {
		case 0:
			st.V = &Val{Kind: "fld", I: &Idx{Kind: "lit", K: 0}} // $0 = $0: re-split with the current FS
		case 1:
			st.V = &Val{Kind: "fld", I: g.valIndex()}
		default:
			st.V = &Val{Kind: "str", S: g.record()}
		}
	case r < 42:
		if g.s.Wide {
			st.Op = "rdnf"
			break
		}
		st.Op, st.I = "aug", g.index(true)
		st.Aug = []string{"+=", "-=", "*=", "/=", "%="}[g.rng.Intn(5)]
		st.N = []float64{1, 2, 3, 4, 10, -1, 0.5, 8}[g.rng.Intn(8)]
		if g.rng.Intn(6) == 0 {
			st.Form = 1
		}
	case r < 47:
		if g.s.Wide {
			st.Op = "rdnf"
			break
		}
		st.Op, st.I, st.Form = "incr", g.index(true), g.rng.Intn(6)
	case r < 60:
		st.Op = "setnf"
		switch f := g.rng.Intn(100); {
		case f < 70:
			st.V = g.nfVal(nf)
		case f < 80:
			st.Form = 1
		case f < 88:
			st.Form = 2
		case f < 95:
			st.Form, st.N = 3, float64(1+g.rng.Intn(3))
		default:
			st.Form, st.N = 4, float64(1+g.rng.Intn(2))
		}
	case r < 68:
		st.Op, st.S = "fs", g.fsValue()
	case r < 75:
		st.Op, st.S = "ofs", g.pick(ofsPool)
	case r < 78:
		st.Op, st.S = "omode", g.pick(omodePool)
	case r < 86:
		st.Op, st.Form = "sub", g.rng.Intn(2)
		st.Re, st.Repl = g.pick(subRes), g.pick(subRepls)
		switch g.rng.Intn(4) {
		case 0: // implicit $0
		case 1:
			st.I = &Idx{Kind: "lit", K: 0}
		default:
			st.I = g.index(true)
		}
		if g.rng.Intn(2) == 0 { // make a match likely: take the pattern from the target's text
			ix := 0.0
			if st.I != nil {
				ix = g.m.evalIdx(st.I)
			}
			if t, _ := g.m.getField(ix); t != "" {
				if ch := t[g.rng.Intn(len(t))]; ch >= '0' && ch <= '9' || ch >= 'a' && ch <= 'd' {
					st.Re = string(ch)
					if g.rng.Intn(3) == 0 {
						st.Re = "[" + st.Re + "]+"
					}
				}
			}
		}
	case r < 95:
		st.Op = "getline"
		switch f := g.rng.Intn(100); {
		case f < 30:
			st.Form = 0
		case f < 42:
			st.Form = 1
		case f < 62:
			st.Form = 2
		case f < 72:
			st.Form = 3
		case f < 84:
			st.Form, st.I = 4, g.index(true)
		case f < 92:
			// getline NF < F: mostly when the next line is a plain count
			st.Form = 5
			if l, ok := g.m.PeekFile(); ok && !looksNumeric(l) && g.rng.Intn(8) != 0 {
				st.Form = 2
			}
		default:
			st.Form, st.I = 6, g.index(true)
		}
	default:
		st.Op = "dump"
		st.Dumps = []int{g.rng.Intn(3), g.rng.Intn(4)}
		return st
	}
	st.Dumps = g.dumps()
	return st
}

func (g *gen) val() *Val {
	switch r := g.rng.Intn(100); {
	case r < 60:
		return &Val{Kind: "str", S: g.value()}
	case r < 75:
		return &Val{Kind: "num", N: []float64{0, 1, 7, -2, 2.5, 100, 0.1, 1e6}[g.rng.Intn(8)]}
	case r < 93:
		return &Val{Kind: "fld", I: g.valIndex()}
	}
	return &Val{Kind: "nf"}
}

// nfVal picks a value to assign to NF.
func (g *gen) nfVal(nf int) *Val {
	num := func(k int) *Val { return &Val{Kind: "num", N: float64(k)} }
	switch r := g.rng.Intn(1000); {
	case r < 150:
		return num(0)
	case r < 420:
		if nf < 2 {
			return num(0)
		}
		return num(1 + g.rng.Intn(nf-1))
	case r < 500:
		return num(nf)
	case r < 560:
		return &Val{Kind: "nf"}
	case r < 820:
		return num(nf + 1 + g.rng.Intn(4))
	case r < 850:
		return num([]int{50, 301, 500}[g.rng.Intn(3)])
	case r < 900:
		return &Val{Kind: "str", S: []string{"2", "0", "3", "1"}[g.rng.Intn(4)]}
	case r < 940:
		return &Val{Kind: "fld", I: g.valIndex()}
	case r < 955:
		return num(-1)
	case r < 965:
		return num(MaxField + 1)
	case r < 975:
		return &Val{Kind: "num", N: float64(g.rng.Intn(4)) + []float64{0.5, 0.7}[g.rng.Intn(2)]} // not an integer
	case r < 985:
		return &Val{Kind: "str", S: []string{"2abc", " 1", "abc", "1.5"}[g.rng.Intn(4)]}
	}
	return &Val{Kind: "num", N: 1e30}
}

// fileLine builds a line of the side file (also usable as an NF value now and then).
func (g *gen) fileLine() string {
	if g.rng.Intn(4) == 0 {
		return []string{"2", "0", "3", "1", "5"}[g.rng.Intn(5)]
	}
	return g.record()
}

// Random generates one random script.
func Random(rng *rand.Rand) *Script {
	s := &Script{Gen: "random"}
	g := &gen{rng: rng, s: s}
	g.th = themes[rng.Intn(len(themes))]
	g.th2 = themes[rng.Intn(len(themes))]
	s.Wide = rng.Intn(25) == 0
	// the line reader drops a CR before the newline (record reading is C07's subject)
	for n := rng.Intn(5); n > 0; n-- {
		s.Input = append(s.Input, strings.TrimRight(g.record(), "\r"))
	}
	for n := rng.Intn(4); n > 0; n-- {
		s.File = append(s.File, strings.TrimRight(g.fileLine(), "\r"))
	}
	// separators given before BEGIN (like -v)
	if rng.Intn(5) == 0 {
		s.Vars = append(s.Vars, "FS", strings.ReplaceAll(g.fsValue(), `\`, ""))
		if s.Vars[1] == "" {
			s.Vars[1] = ","
		}
	}
	if rng.Intn(8) == 0 {
		s.Vars = append(s.Vars, "OFS", g.pick(ofsPool))
	}
	if rng.Intn(20) == 0 {
		s.Vars = append(s.Vars, "OUTPUTMODE", g.pick(omodePool))
	}
	g.m = NewModel(false, nil, nil)
	g.m.Init(s)
	id := 0
	add := func(dst *[]Step, n int) {
		for i := 0; i < n && !g.m.Dead(); i++ {
			st := g.step()
			id++
			g.m.Apply(&st, id)
			*dst = append(*dst, st)
		}
	}
	total := 1 + rng.Intn(12)
	switch layout := rng.Intn(100); {
	case layout < 35 || len(s.Input) == 0:
		s.Gen = "random-begin"
		add(&s.Begin, total)
	case layout < 80:
		s.Gen = "random-main"
		for n := rng.Intn(3); n > 0; n-- { // prelude: separators only, so the record is read under them
			st := Step{}
			switch rng.Intn(4) {
			case 0, 1:
				st.Op, st.S = "fs", g.fsValue()
			case 2:
				st.Op, st.S = "ofs", g.pick(ofsPool)
			default:
				st.Op, st.S = "omode", g.pick(omodePool)
			}
			id++
			g.m.Apply(&st, id)
			s.Begin = append(s.Begin, st)
		}
		if g.m.NextMainRecord() {
			s.Rules = append(s.Rules, Rule{NR: g.m.NR()})
			add(&s.Rules[0].Steps, total)
		}
	default:
		s.Gen = "random-two-records"
		if g.m.NextMainRecord() {
			s.Rules = append(s.Rules, Rule{NR: g.m.NR()})
			add(&s.Rules[0].Steps, 1+rng.Intn(4))
			if !g.m.Dead() && g.m.NextMainRecord() {
				// what was done to the previous record must not leak into this one
				s.Rules = append(s.Rules, Rule{NR: g.m.NR()})
				add(&s.Rules[1].Steps, total)
			}
		}
	}
	return s
}

// ---- systematic families -----------------------------------------------------------------------

// sysOps is a small alphabet of record operations; SysOpsScript enumerates all sequences of
// a given length over it, on a few start records, with a dump after every step or only at
// the end (so that lazily kept state survives across several operations).
func sysOps() []Step {
	str := func(s string) *Val { return &Val{Kind: "str", S: s} }
	num := func(n float64) *Val { return &Val{Kind: "num", N: n} }
	lit := func(k float64) *Idx { return &Idx{Kind: "lit", K: k} }
	return []Step{
		{Op: "setnf", V: num(1)},
		{Op: "setnf", V: num(4)},
		{Op: "setnf", V: num(0)},
		{Op: "setnf", V: &Val{Kind: "nf"}},
		{Op: "setnf", Form: 1},
		{Op: "setf", I: lit(2), V: str("x")},
		{Op: "setf", I: lit(5), V: str("y,z")},
		{Op: "setf", I: lit(1), V: &Val{Kind: "fld", I: lit(1)}},
		{Op: "setf", I: lit(-1), V: str("w")},
		{Op: "setf", I: &Idx{Kind: "nf", K: 1}, V: str("")},
		{Op: "setf", I: lit(0), V: str("p q,r  s")},
		{Op: "setf", I: lit(0), V: &Val{Kind: "fld", I: lit(0)}},
		{Op: "ofs", S: "-"},
		{Op: "fs", S: ","},
		{Op: "fs", S: " "},
		{Op: "sub", Re: "zz", Repl: "Q", I: lit(6)},
		{Op: "sub", Form: 1, Re: "[a-z]", Repl: "Q", I: lit(2)},
		{Op: "sub", Re: " ", Repl: ",", I: nil},
		{Op: "incr", I: lit(3)},
		{Op: "getline"},
		{Op: "getline", Form: 2},
		{Op: "rd", I: lit(7)},
	}
}

var sysStartRecords = []string{"a b c", " a,b  c ", ""}

// SysOpsCount is the number of scripts of SysOpsScript for sequences of length k.
func SysOpsCount(k int) int {
	n := 1
	for i := 0; i < k; i++ {
		n *= len(sysOps())
	}
	return n * len(sysStartRecords) * 2
}

// SysOpsScript returns script number i of the length-k family.
func SysOpsScript(k, i int) *Script {
	ops := sysOps()
	s := &Script{Gen: "sys-ops"}
	everyStep := i%2 == 0
	i /= 2
	start := sysStartRecords[i%len(sysStartRecords)]
	i /= len(sysStartRecords)
	s.Input = []string{start, "u v,w", "last"}
	s.File = []string{"f1 f2", "g1,g2 g3"}
	var steps []Step
	for j := 0; j < k; j++ {
		st := ops[i%len(ops)]
		i /= len(ops)
		if everyStep {
			st.Dumps = []int{j % 3}
		}
		steps = append(steps, st)
	}
	steps = append(steps, Step{Op: "dump", Dumps: []int{(k + len(steps)) % 3, 0}})
	s.Rules = []Rule{{NR: 1, Steps: steps}}
	return s
}

// sysFS lists the separators of the splitting family.
var sysFS = []string{" ", ",", "\t", "a", ".", "|", "*", " +", ", *", ",*", "a*", "a|ab", "ab|a", "(a|ab)(,|,b)?", "[ ,]", " |,", "b+", "^a", "a$", "()", "[ \t]+", ",,", "b?,"}

// sysAlphabet is the alphabet of the exhaustively enumerated record texts.
var sysAlphabet = []string{"a", "b", " ", ",", "\t"}

// SysSplitRecords enumerates all texts of length <= maxLen over sysAlphabet.
func SysSplitRecords(maxLen int) []string {
	out := []string{""}
	prev := []string{""}
	for l := 1; l <= maxLen; l++ {
		var cur []string
		for _, p := range prev {
			for _, a := range sysAlphabet {
				cur = append(cur, p+a)
			}
		}
		out = append(out, cur...)
		prev = cur
	}
	return out
}

// SysSplitCount is the number of scripts of SysSplitScript.
func SysSplitCount(recs []string, per int) int {
	return len(sysFS) * ((len(recs) + per - 1) / per)
}

// SysSplitScript returns script i of the splitting family: one FS, `per` record texts; even
// chunks assign the texts to $0 in BEGIN, odd chunks read them as input records.
func SysSplitScript(recs []string, per, i int) *Script {
	fs := sysFS[i%len(sysFS)]
	chunk := i / len(sysFS)
	lo := chunk * per
	hi := lo + per
	if hi > len(recs) {
		hi = len(recs)
	}
	s := &Script{Gen: "sys-split"}
	if chunk%2 == 0 {
		s.Begin = append(s.Begin, Step{Op: "fs", S: fs})
		for j, r := range recs[lo:hi] {
			s.Begin = append(s.Begin, Step{Op: "setf", I: &Idx{Kind: "lit", K: 0}, V: &Val{Kind: "str", S: r}, Dumps: []int{j % 3}})
		}
		return s
	}
	s.Gen = "sys-split-input"
	s.Begin = append(s.Begin, Step{Op: "fs", S: fs})
	for j, r := range recs[lo:hi] {
		if strings.Contains(r, "\n") {
			continue
		}
		s.Input = append(s.Input, r)
		s.Rules = append(s.Rules, Rule{NR: len(s.Input), Steps: []Step{{Op: "dump", Dumps: []int{j % 3}}}})
	}
	return s
}

// SysLimits is the small family at goawk's documented limit of 1000000 fields: the largest
// legal index / NF must work (checked with the compact dump), one more must be an error.
func SysLimits() []*Script {
	lit := func(k float64) *Idx { return &Idx{Kind: "lit", K: k} }
	num := func(n float64) *Val { return &Val{Kind: "num", N: n} }
	str := func(s string) *Val { return &Val{Kind: "str", S: s} }
	d := []int{0}
	mk := func(steps ...Step) *Script {
		return &Script{Gen: "sys-limits", Input: []string{"a b c"}, Rules: []Rule{{NR: 1, Steps: steps}}}
	}
	return []*Script{
		mk(Step{Op: "setf", I: lit(MaxField), V: str("x"), Dumps: d}, Step{Op: "setnf", V: num(2), Dumps: d}),
		mk(Step{Op: "setnf", V: num(MaxField), Dumps: d}, Step{Op: "setf", I: lit(-1), V: str("y"), Dumps: d}, Step{Op: "setf", I: &Idx{Kind: "nf", K: 1}, V: str("z"), Dumps: d}),
		mk(Step{Op: "ofs", S: ""}, Step{Op: "setnf", V: num(MaxField), Dumps: d}, Step{Op: "setnf", Form: 1, Dumps: d}),
		mk(Step{Op: "setf", I: lit(MaxField + 1), V: str("x"), Dumps: d}),
		mk(Step{Op: "setnf", V: num(MaxField + 1), Dumps: d}),
		mk(Step{Op: "incr", I: lit(MaxField + 1), Dumps: d}),
		mk(Step{Op: "aug", Aug: "+=", N: 1, I: lit(MaxField), Dumps: d}, Step{Op: "rd", I: lit(MaxField + 1), Dumps: d}),
		mk(Step{Op: "rd", I: lit(1e30), Dumps: d}, Step{Op: "rd", I: lit(MaxField + 1), Dumps: d}, Step{Op: "setnf", V: num(-1), Dumps: d}),
	}
}
