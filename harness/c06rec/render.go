package c06rec

import (
	"fmt"
	"math"
	"strconv"
	"strings"
)

// dumpFunc is the AWK side of Model.dump. Every value is printed with printf "%s" (never
// print, which OFS/ORS/OUTPUTMODE would influence) behind a "\001<tag>" marker; the generators
// never produce \001 in any text.
const dumpFunc = `function D(o,   n, i, h) {
	if (o == 3) { printf "\001Z%s", $0; return }
	if (o == 0) { printf "\001Z%s", $0; printf "\001N%s", NF }
	else if (o == 1) { printf "\001N%s", NF; printf "\001Z%s", $0 }
	else { printf "\001G%s", $1; printf "\001N%s", NF; printf "\001Z%s", $0 }
	n = NF + 0  # numeric, whatever was assigned to NF
	if (n > 300) {
		h = int(n / 2)
		printf "\001f%s\001f%s\001f%s", $1, $h, $n
	} else {
		for (i = 1; i <= n; i++) printf "\001f%s", $i
	}
	printf "\001P%s\001L%s\001M%s\001Z%s\001N%s", $(n+1), $-1, $(-n), $0, NF
}
`

// Quote renders s as an AWK string literal.
func Quote(s string) string {
	var b strings.Builder
	b.WriteByte('"')
	for i := 0; i < len(s); i++ {
		c := s[i]
		switch {
		case c == '"':
			b.WriteString(`\"`)
		case c == '\\':
			b.WriteString(`\\`)
		case c == '\n':
			b.WriteString(`\n`)
		case c == '\t':
			b.WriteString(`\t`)
		case c == '\r':
			b.WriteString(`\r`)
		case c < 0x20 || c == 0x7f:
			fmt.Fprintf(&b, `\%03o`, c)
		default:
			b.WriteByte(c) // bytes >= 0x80 are copied (UTF-8 text stays readable)
		}
	}
	b.WriteByte('"')
	return b.String()
}

// Num renders a number literal.
func Num(v float64) string {
	if v == math.Trunc(v) && math.Abs(v) < 1e15 {
		return strconv.FormatInt(int64(v), 10)
	}
	return strconv.FormatFloat(v, 'g', -1, 64)
}

// idxSrc renders "$<index>" and the statement (if any) that must precede it.
func idxSrc(ix *Idx) (pre, field string) {
	switch ix.Kind {
	case "lit":
		if ix.K >= 0 && ix.K == math.Trunc(ix.K) && ix.K < 1e15 {
			return "", "$" + Num(ix.K)
		}
		return "", "$(" + Num(ix.K) + ")"
	case "var":
		return "k = " + Num(ix.K) + "; ", "$k"
	case "nf":
		switch {
		case ix.K == 0:
			return "", "$NF"
		case ix.K > 0:
			return "", "$(NF+" + Num(ix.K) + ")"
		}
		return "", "$(NF-" + Num(-ix.K) + ")"
	case "negnf":
		switch {
		case ix.K == 0:
			return "", "$(-NF)"
		case ix.K > 0:
			return "", "$(-NF+" + Num(ix.K) + ")"
		}
		return "", "$(-NF-" + Num(-ix.K) + ")"
	case "str":
		return "", "$(" + Quote(ix.S) + ")"
	case "unset":
		return "", "$u"
	}
	return "", "$BAD"
}

func valSrc(v *Val) (pre, src string) {
	switch v.Kind {
	case "str":
		return "", Quote(v.S)
	case "num":
		if v.N < 0 {
			return "", "(" + Num(v.N) + ")"
		}
		return "", Num(v.N)
	case "nf":
		return "", "NF"
	case "fld":
		return idxSrc(v.I)
	}
	return "", "BAD"
}

// regexSrc renders a regex literal /re/.
func regexSrc(re string) string { return "/" + strings.ReplaceAll(re, "/", `\/`) + "/" }

// StepSrc renders one step (without its S marker) as AWK statements.
func StepSrc(st *Step, id int) string {
	var b strings.Builder
	r := func(expr string) { fmt.Fprintf(&b, `printf "\001R%%s", %s; `, expr) }
	switch st.Op {
	case "rd":
		pre, f := idxSrc(st.I)
		b.WriteString(pre)
		fmt.Fprintf(&b, "x = %s; ", f)
		r("x")
	case "rdnf":
		b.WriteString("x = NF; ")
		r("x")
	case "setf":
		pre, f := idxSrc(st.I)
		vpre, v := valSrc(st.V)
		b.WriteString(pre + vpre)
		if st.Form == 1 {
			fmt.Fprintf(&b, "x = (%s = %s); ", f, v)
			r("x")
		} else {
			fmt.Fprintf(&b, "%s = %s; ", f, v)
		}
	case "aug":
		pre, f := idxSrc(st.I)
		b.WriteString(pre)
		if st.Form == 1 {
			fmt.Fprintf(&b, "x = (%s %s %s); ", f, st.Aug, Num(st.N))
			r("x")
		} else {
			fmt.Fprintf(&b, "%s %s %s; ", f, st.Aug, Num(st.N))
		}
	case "incr":
		pre, f := idxSrc(st.I)
		b.WriteString(pre)
		switch st.Form {
		case 0:
			b.WriteString(f + "++; ")
		case 1:
			b.WriteString("++" + f + "; ")
		case 2:
			b.WriteString(f + "--; ")
		case 3:
			b.WriteString("--" + f + "; ")
		case 4:
			fmt.Fprintf(&b, "x = %s++; ", f)
			r("x")
		case 5:
			fmt.Fprintf(&b, "x = ++%s; ", f)
			r("x")
		}
	case "setnf":
		switch st.Form {
		case 0:
			pre, v := valSrc(st.V)
			b.WriteString(pre + "NF = " + v + "; ")
		case 1:
			b.WriteString("NF++; ")
		case 2:
			b.WriteString("NF--; ")
		case 3:
			b.WriteString("NF += " + Num(st.N) + "; ")
		case 4:
			b.WriteString("NF -= " + Num(st.N) + "; ")
		}
	case "fs":
		b.WriteString("FS = " + Quote(st.S) + "; ")
	case "ofs":
		b.WriteString("OFS = " + Quote(st.S) + "; ")
	case "omode":
		b.WriteString("OUTPUTMODE = " + Quote(st.S) + "; ")
	case "sub":
		fn := "sub"
		if st.Form == 1 {
			fn = "gsub"
		}
		if st.I == nil {
			fmt.Fprintf(&b, "x = %s(%s, %s); ", fn, regexSrc(st.Re), Quote(st.Repl))
		} else {
			pre, f := idxSrc(st.I)
			b.WriteString(pre)
			fmt.Fprintf(&b, "x = %s(%s, %s, %s); ", fn, regexSrc(st.Re), Quote(st.Repl), f)
		}
		r("x")
	case "getline":
		v := fmt.Sprintf("v%d", id)
		switch st.Form {
		case 0:
			b.WriteString("x = getline; ")
			r("x")
		case 1:
			fmt.Fprintf(&b, "x = getline %s; ", v)
			r("x")
			r(v)
		case 2:
			b.WriteString("x = (getline < F); ")
			r("x")
		case 3:
			fmt.Fprintf(&b, "x = (getline %s < F); ", v)
			r("x")
			r(v)
		case 4:
			pre, f := idxSrc(st.I)
			b.WriteString(pre)
			fmt.Fprintf(&b, "x = (getline %s < F); ", f)
			r("x")
		case 5:
			b.WriteString("x = (getline NF < F); ")
			r("x")
		case 6:
			pre, f := idxSrc(st.I)
			b.WriteString(pre)
			fmt.Fprintf(&b, "x = getline %s; ", f)
			r("x")
		}
	case "dump":
	}
	for _, o := range st.Dumps {
		fmt.Fprintf(&b, "D(%d); ", o)
	}
	return strings.TrimRight(b.String(), " ")
}

// Render prints the script as an AWK program. Steps are numbered in text order from 1.
func Render(s *Script) string {
	var b strings.Builder
	b.WriteString(dumpFunc)
	id := 0
	block := func(head string, steps []Step) {
		b.WriteString(head + " {\n")
		for i := range steps {
			id++
			fmt.Fprintf(&b, "\tprintf \"\\001S%d\"; %s\n", id, StepSrc(&steps[i], id))
		}
		b.WriteString("}\n")
	}
	if len(s.Begin) > 0 || len(s.Rules) == 0 {
		block("BEGIN", s.Begin)
	}
	for i := range s.Rules {
		block(fmt.Sprintf("NR == %d", s.Rules[i].NR), s.Rules[i].Steps)
	}
	return b.String()
}

// InputText is the main input as bytes.
func InputText(s *Script) string {
	if len(s.Input) == 0 {
		return ""
	}
	return strings.Join(s.Input, "\n") + "\n"
}

// FileText is the side file as bytes.
func FileText(s *Script) string {
	if len(s.File) == 0 {
		return ""
	}
	return strings.Join(s.File, "\n") + "\n"
}

// UsesFile reports whether any step reads the side file.
func UsesFile(s *Script) bool {
	uses := func(l []Step) bool {
		for i := range l {
			if l[i].Op == "getline" && l[i].Form >= 2 && l[i].Form <= 5 {
				return true
			}
		}
		return false
	}
	if uses(s.Begin) {
		return true
	}
	for i := range s.Rules {
		if uses(s.Rules[i].Steps) {
			return true
		}
	}
	return false
}
