package c12io

import (
	"fmt"
	"strings"
)

// Open is one file the model says the program opened (through Config.OpenFile, if configured).
type Open struct {
	F    string `json:"f"`    // logical name
	Mode string `json:"mode"` // "r" read-only, "w" create+truncate, "a" create+append
}

// Forbid identifies the first operation a set flag forbids.
type Forbid struct {
	Flag string `json:"flag"` // NoExec | NoFileWrites | NoFileReads
	Kind string `json:"kind"` // op kind, or "operand" when the main loop opens a file operand
	N    int    `json:"n"`    // op id (-1 for the main loop)
	// Form is Kind with the two plain-getline spellings merged and the place the operand is
	// opened from made explicit: it is the classifier key of refusal findings.
	Form string `json:"form"`
}

// Expectation is what the property (as instantiated by the model) demands of one run.
type Expectation struct {
	Err         bool              // the run must end with an error (a forbidden attempt was reached)
	Forbidden   *Forbid           // which one
	Stdout      string            // exact standard output
	Stderr      string            // exact standard error (only /dev/stderr prints write there)
	Files       map[string]string // sandbox content after the run: logical name -> content
	Written     map[string]bool   // files the program opened for writing
	Opens       []Open            // files opened, in order
	Execs       []int             // op ids whose command was started
	Attempts    []string          // "flagcombo|form|allowed" / "...|refused" (coverage)
	DevReached  bool              // a /dev/stdout-style print was reached under NoFileWrites (don't-care point)
	Unsupported string            // generator produced something outside the modelled fragment
}

type stopRun struct{}

type model struct {
	c          *Case
	fl         Flags
	d          string // directory prefix the program sees
	devAllow   bool   // ambiguity switch: /dev/stdout-style names allowed under NoFileWrites
	e          *Expectation
	out        strings.Builder
	errOut     strings.Builder
	outOpen    map[string]bool
	inPos      map[string]int
	inOpen     map[string]bool
	cmdOpen    map[int]bool
	dollar0    string
	vars       map[string]string
	operands   []string
	argIdx     int
	cur        []string // remaining records of the current main input
	curOpen    bool
	hadFiles   bool
	stdinPos   int
	dashUsed   bool // standard input was read under the name "-"
	stdinTaken bool // standard input became the main input
}

func lines(s string) []string {
	if s == "" {
		return nil
	}
	l := strings.Split(s, "\n")
	if l[len(l)-1] == "" {
		l = l[:len(l)-1]
	}
	return l
}

func (m *model) forbid(flag, kind string, n int) {
	form := kind
	switch kind {
	case KGetline, KGetlineV:
		form = "plain-getline"
	case KOperand:
		form = "operand"
	}
	m.e.Err = true
	m.e.Forbidden = &Forbid{Flag: flag, Kind: kind, N: n, Form: form}
	m.e.Attempts = append(m.e.Attempts, m.fl.String()+"|"+form+"|refused")
	panic(stopRun{})
}

func (m *model) allowed(form string) {
	m.e.Attempts = append(m.e.Attempts, m.fl.String()+"|"+form+"|allowed")
}

func (m *model) unsupported(why string) {
	m.e.Unsupported = why
	panic(stopRun{})
}

func (m *model) printf(format string, args ...any) { fmt.Fprintf(&m.out, format, args...) }

// nextRecord mirrors the operand walk: var=value operands are skipped, "-" is standard
// input, anything else is a file that must be opened (a read attempt); with no file
// operand at all standard input is read once.
func (m *model) nextRecord(kind string, n int) (string, bool) {
	for {
		if m.curOpen {
			if len(m.cur) > 0 {
				r := m.cur[0]
				m.cur = m.cur[1:]
				return r, true
			}
			m.curOpen = false
		}
		if m.argIdx >= len(m.operands) {
			if m.hadFiles {
				return "", false
			}
			m.hadFiles = true
			m.cur, m.curOpen = m.stdinLines(), true
			continue
		}
		arg := m.operands[m.argIdx]
		m.argIdx++
		switch {
		case strings.Contains(arg, "="):
			continue
		case arg == "-":
			m.hadFiles = true
			m.cur, m.curOpen = m.stdinLines(), true
		default:
			form := KOperand
			if kind != KOperand {
				form = kind
			}
			if m.fl.NoFileReads {
				m.forbid("NoFileReads", form, n)
			}
			content, ok := m.e.Files[arg]
			if !ok {
				m.unsupported("operand names a missing file")
			}
			if m.outOpen[arg] {
				m.unsupported("operand is open for writing")
			}
			m.allowed("operand")
			m.e.Opens = append(m.e.Opens, Open{arg, "r"})
			m.hadFiles = true
			m.cur, m.curOpen = lines(content), true
		}
	}
}

func (m *model) stdinLines() []string {
	if m.dashUsed {
		m.unsupported("standard input read both as main input and under the name -")
	}
	m.stdinTaken = true
	return lines(m.c.Stdin)
}

func (m *model) step(op Op) {
	n := op.N
	switch op.K {
	case KPrintGt, KPrintApp, KPrintfGt, KPrintfApp:
		if m.inOpen[op.F] {
			m.unsupported("write to a file open for reading")
		}
		if !m.outOpen[op.F] {
			if m.fl.NoFileWrites {
				m.forbid("NoFileWrites", op.K, n)
			}
			m.allowed(op.K)
			mode := "w"
			if op.K == KPrintApp || op.K == KPrintfApp {
				mode = "a"
			} else {
				m.e.Files[op.F] = ""
			}
			if _, ok := m.e.Files[op.F]; !ok {
				m.e.Files[op.F] = ""
			}
			m.e.Opens = append(m.e.Opens, Open{op.F, mode})
			m.e.Written[op.F] = true
			m.outOpen[op.F] = true
		}
		m.e.Files[op.F] += fmt.Sprintf("w%d\n", n)
	case KGetlineF, KGetlineVF:
		if m.outOpen[op.F] {
			m.unsupported("read from a file open for writing")
		}
		ret := 1
		line := ""
		if !m.inOpen[op.F] {
			if m.fl.NoFileReads {
				m.forbid("NoFileReads", op.K, n)
			}
			m.allowed(op.K)
			m.e.Opens = append(m.e.Opens, Open{op.F, "r"})
			if _, ok := m.e.Files[op.F]; !ok {
				ret = -1 // a missing file is not an error: getline returns -1
			} else {
				m.inOpen[op.F] = true
				m.inPos[op.F] = 0
			}
		}
		if ret == 1 {
			l := lines(m.e.Files[op.F])
			if m.inPos[op.F] < len(l) {
				line = l[m.inPos[op.F]]
				m.inPos[op.F]++
			} else {
				ret = 0
			}
		}
		m.getlineResult(op, "r", ret, line)
	case KStdinDash:
		if m.stdinTaken {
			m.unsupported("standard input read both as main input and under the name -")
		}
		m.dashUsed = true
		m.allowed(op.K)
		l := lines(m.c.Stdin)
		ret, line := 0, ""
		if m.stdinPos < len(l) {
			ret, line = 1, l[m.stdinPos]
			m.stdinPos++
		}
		m.getlineResult(op, "r", ret, line)
	case KPrintPipe, KPrintfPipe:
		if m.fl.NoExec {
			m.forbid("NoExec", op.K, n)
		}
		m.allowed(op.K)
		m.e.Execs = append(m.e.Execs, n)
		m.cmdOpen[n] = true
		m.e.Files[fmt.Sprintf("sink%d", n)] = fmt.Sprintf("p%d\n", n)
		m.e.Files[fmt.Sprintf("ran%d", n)] = ""
	case KCmdGetline, KCmdGetlnV:
		if m.fl.NoExec {
			m.forbid("NoExec", op.K, n)
		}
		m.allowed(op.K)
		m.e.Execs = append(m.e.Execs, n)
		m.cmdOpen[n] = true
		m.e.Files[fmt.Sprintf("ran%d", n)] = ""
		m.getlineResult(op, "r", 1, fmt.Sprintf("c%d", n))
	case KSystem:
		if m.fl.NoExec {
			m.forbid("NoExec", op.K, n)
		}
		m.allowed(op.K)
		m.e.Execs = append(m.e.Execs, n)
		m.e.Files[fmt.Sprintf("ran%d", n)] = ""
		m.printf("s%d 3\n", n)
	case KSystemNone:
		if m.fl.NoExec {
			m.forbid("NoExec", op.K, n)
		}
		m.allowed(op.K)
		m.e.Execs = append(m.e.Execs, n)
		m.printf("s%d 0\n", n)
	case KGetline, KGetlineV:
		rec, ok := m.nextRecord(op.K, n)
		ret := 0
		if ok {
			ret = 1
		}
		m.getlineResult(op, "g", ret, rec)
	case KClose:
		if op.Cmd {
			delete(m.cmdOpen, op.Ref)
		} else {
			delete(m.outOpen, op.F)
			delete(m.inOpen, op.F)
			delete(m.inPos, op.F)
		}
	case KDevStdout, KDevStderr:
		if m.fl.NoFileWrites {
			m.e.DevReached = true
			if !m.devAllow {
				m.forbid("NoFileWrites", op.K, n)
			}
		}
		m.allowed(op.K)
		if op.K == KDevStdout {
			m.printf("d%d\n", n)
		} else {
			fmt.Fprintf(&m.errOut, "d%d\n", n)
		}
	case KDevNull:
		if !m.outOpen["/dev/null"] {
			if m.fl.NoFileWrites {
				m.forbid("NoFileWrites", op.K, n)
			}
			m.allowed(op.K)
			m.e.Opens = append(m.e.Opens, Open{"null", "w"})
			m.outOpen["/dev/null"] = true
		}
	case KSetArgv:
		if m.argIdx != 0 || m.curOpen {
			m.unsupported("ARGV changed after input started")
		}
		m.operands = []string{op.F}
	default:
		m.unsupported("unknown op " + op.K)
	}
	m.printf("k%d\n", n)
}

// getlineResult prints what the op's print statement prints: tag, return value and the
// variable or $0 (a successful read into $0 replaces it; anything else leaves it).
func (m *model) getlineResult(op Op, tag string, ret int, line string) {
	intoRecord := op.K == KGetlineF || op.K == KCmdGetline || op.K == KGetline
	shown := ""
	if intoRecord {
		if ret == 1 {
			m.dollar0 = line
		}
		shown = m.dollar0
	} else if ret == 1 {
		shown = line
	}
	m.printf("%s%d %d %s\n", tag, op.N, ret, shown)
}

// usesField reports whether the op's name is spelled through a field (which assigns $0).
func usesField(op Op) bool {
	switch op.K {
	case KPrintGt, KPrintApp, KPrintfGt, KPrintfApp, KGetlineF, KGetlineVF, KSetArgv:
		return op.Sp%NSpell == 3
	case KClose:
		return !op.Cmd && op.Sp%NSpell == 3
	}
	return false
}

func (m *model) runOps(ops []Op) {
	for _, op := range ops {
		if usesField(op) {
			m.dollar0 = "zz " + m.d + "/" + op.F + " yy"
		}
		m.step(op)
	}
}

// Expect computes what one run of the case must look like when the program sees its files
// under directory prefix d. devAllow selects the other side of the one don't-care: whether
// print > "/dev/stdout" (or /dev/stderr) under NoFileWrites is refused (as built) or allowed.
func Expect(c *Case, fl Flags, d string, devAllow bool) (exp *Expectation) {
	m := &model{c: c, fl: fl, d: d, devAllow: devAllow,
		outOpen: map[string]bool{}, inPos: map[string]int{}, inOpen: map[string]bool{}, cmdOpen: map[int]bool{},
		operands: append([]string{}, c.Operands...)}
	m.e = &Expectation{Files: map[string]string{}, Written: map[string]bool{}}
	for k, v := range c.Files {
		if v == DirMarker {
			m.e.Files[k+"/"] = "" // a directory of the sandbox (listed with a trailing slash in snapshots)
			continue
		}
		m.e.Files[k] = v
	}
	exp = m.e
	defer func() {
		if r := recover(); r != nil {
			if _, ok := r.(stopRun); !ok {
				panic(r)
			}
		}
		exp.Stdout = m.out.String()
		exp.Stderr = m.errOut.String()
	}()
	m.runOps(c.Begin)
	if !c.HasMain && !c.HasEnd {
		return
	}
	mainDone := false
	for {
		rec, ok := m.nextRecord(KOperand, -1)
		if !ok {
			break
		}
		m.dollar0 = rec
		if c.HasMain {
			if !mainDone {
				mainDone = true
				m.runOps(c.Main)
			}
			m.printf("rec:%s\n", m.dollar0)
		}
	}
	if c.HasEnd {
		m.runOps(c.End)
		m.printf("end\n")
	}
	return
}
