package c12io

import "math/rand"

// Standard sandbox content and standard input of generated cases. Every line names its file,
// so the provenance of a record that shows up in the output is visible.
const (
	In1   = "in1-a\nin1-b\nin1-c\n"
	In2   = "in2-a\nin2-b\n"
	Old   = "old-content\n"
	Stdin = "st-a\nst-b\n"
)

var operandChoices = [][]string{
	nil, {"-"}, {"in1"}, {"in1", "in2"}, {"v=1", "in1"}, {"-", "in2"}, {"in2", "v=2", "in1"},
	// an operand that names an existing directory is a file operand like any other: NoFileReads
	// refuses it (without the flag, reading it fails: outside the modelled fragment)
	{"adir"}, {"adir", "in1"}, {"v=3", "adir", "-"},
}

// DirMarker as the content of a Files entry makes that entry a directory of the sandbox.
const DirMarker = "\x00directory"

// builder appends ops while tracking (as if nothing were refused) which files are open in
// which direction, so that a program never reads a file it has open for writing or the other
// way round: those are errors of their own in goawk and outside the modelled fragment.
type builder struct {
	n       int
	outOpen map[string]bool
	inOpen  map[string]bool
	cmds    []int // ids of exec ops whose stream may still be open
}

func newBuilder() *builder {
	return &builder{outOpen: map[string]bool{}, inOpen: map[string]bool{}}
}

func (b *builder) id() int { b.n++; return b.n }

// add appends op (and a close before it if needed) to *dst.
func (b *builder) add(dst *[]Op, kind, f string, sp int) {
	switch Class(kind) {
	case "W":
		if b.inOpen[f] {
			*dst = append(*dst, Op{K: KClose, N: b.id(), F: f, Sp: sp + 1})
			delete(b.inOpen, f)
		}
		b.outOpen[f] = true
	case "R":
		if b.outOpen[f] {
			*dst = append(*dst, Op{K: KClose, N: b.id(), F: f, Sp: sp + 1})
			delete(b.outOpen, f)
		}
		if f != "in9" {
			b.inOpen[f] = true
		}
	}
	op := Op{K: kind, N: b.id(), F: f, Sp: sp}
	if kind == KPrintPipe || kind == KPrintfPipe || kind == KCmdGetline || kind == KCmdGetlnV {
		b.cmds = append(b.cmds, op.N)
	}
	*dst = append(*dst, op)
}

func hasFileOperand(ops []string) bool {
	for _, a := range ops {
		if a != "-" && !containsEq(a) {
			return true
		}
	}
	return false
}

func hasDash(ops []string) bool {
	for _, a := range ops {
		if a == "-" {
			return true
		}
	}
	return false
}

func containsEq(s string) bool {
	for i := 0; i < len(s); i++ {
		if s[i] == '=' {
			return true
		}
	}
	return false
}

var wTargets = []string{"out1", "out2", "out3", "io1"}
var rTargets = []string{"in1", "in2", "in9", "io1", "out1"}

func defaultFile(kind string, r int) string {
	switch Class(kind) {
	case "W":
		return wTargets[r%len(wTargets)]
	case "R":
		return rTargets[r%len(rTargets)]
	}
	if kind == KSetArgv {
		return []string{"in1", "in2"}[r%2]
	}
	return ""
}

// NSystematic is the size of the systematic family: every I/O form x the eight flag
// combinations x the three OpenFile kinds x the three program sections.
var NSystematic = len(Forms) * 8 * 3 * 3

// Systematic returns case i of the systematic family: the form under test followed, in the same
// section, by one write, one read and one process start (rotated), so that both "this form is
// the first forbidden one" and "a later one is" occur, and what runs after a refusal is visible.
func Systematic(i int, mode string) *Case {
	form := Forms[i%len(Forms)]
	fl := FlagsOf((i / len(Forms)) % 8)
	of := []string{OFDefault, OFRecorder, OFRooted}[(i/(len(Forms)*8))%3]
	place := (i / (len(Forms) * 8 * 3)) % 3
	c := &Case{Gen: "systematic", Flags: fl, OpenFile: of, Mode: mode, Stdin: Stdin,
		Files: map[string]string{"in1": In1, "in2": In2, "out1": Old, "adir": DirMarker}}
	c.HasMain = place == 1 || i%2 == 0
	c.HasEnd = place == 2 || i%3 == 0
	switch {
	case Class(form) == "M" || form == KStdinDash:
		c.Operands = []string{"in1"}
	case form == KSetArgv:
		place = 0
		c.HasMain = true
		c.Operands = []string{"v=0"}
	default:
		c.Operands = operandChoices[(i/7)%5]
		if (i/7)%11 == 10 {
			c.Operands = operandChoices[7+(i/77)%3]
		}
	}
	b := newBuilder()
	var ops []Op
	b.add(&ops, form, defaultFile(form, i/5), i)
	trail := []struct{ k, f string }{{KPrintApp, "out3"}, {KGetlineVF, "in2"}, {KSystem, ""}}
	for j := 0; j < 3; j++ {
		t := trail[(i+j)%3]
		b.add(&ops, t.k, t.f, i+j+1)
	}
	switch place {
	case 0:
		c.Begin = ops
	case 1:
		c.Main = ops
	default:
		c.End = ops
	}
	c.Source = Source(c)
	return c
}

// Random returns a random straight-line I/O program with random flags and OpenFile kind.
func Random(rng *rand.Rand, mode string) *Case {
	c := &Case{Gen: "random", Flags: FlagsOf(rng.Intn(8)), Mode: mode, Stdin: Stdin,
		OpenFile: []string{OFDefault, OFRecorder, OFRooted}[rng.Intn(3)],
		Files:    map[string]string{"in1": In1, "in2": In2, "adir": DirMarker}}
	if rng.Intn(2) == 0 {
		c.Files["out1"] = Old
	}
	if rng.Intn(2) == 0 {
		c.Files["io1"] = Old
	}
	if rng.Intn(7) == 0 {
		p := FlagsOf(rng.Intn(8))
		if rng.Intn(2) == 0 {
			p = Flags{}
		}
		c.Prior = &p
	}
	c.HasMain = rng.Intn(5) < 3
	c.HasEnd = rng.Intn(2) == 0
	c.Operands = operandChoices[rng.Intn(len(operandChoices))]
	sections := []*[]Op{&c.Begin}
	if c.HasMain {
		sections = append(sections, &c.Main)
	}
	if c.HasEnd {
		sections = append(sections, &c.End)
	}
	b := newBuilder()
	nOps := 1 + rng.Intn(7)
	// ops are generated in execution order: the section index never decreases
	sec := 0
	argvSet := false
	plainSeen := false
	for j := 0; j < nOps; j++ {
		if sec < len(sections)-1 && rng.Intn(3) == 0 {
			sec += 1 + rng.Intn(len(sections)-sec-1)
		}
		dst := sections[sec]
		r := rng.Intn(len(Forms) + 2)
		if r >= len(Forms) { // a close of something that may be open
			if len(b.cmds) > 0 && rng.Intn(2) == 0 {
				k := rng.Intn(len(b.cmds))
				*dst = append(*dst, Op{K: KClose, N: b.id(), Cmd: true, Ref: b.cmds[k]})
				b.cmds = append(b.cmds[:k], b.cmds[k+1:]...)
			} else {
				f := FileNames[rng.Intn(len(FileNames))]
				*dst = append(*dst, Op{K: KClose, N: b.id(), F: f, Sp: rng.Intn(NSpell)})
				delete(b.outOpen, f)
				delete(b.inOpen, f)
			}
			continue
		}
		kind := Forms[r]
		switch kind {
		case KSetArgv:
			if sec != 0 || plainSeen || argvSet {
				continue
			}
			argvSet = true
		case KStdinDash:
			ops := c.Operands
			if argvSet {
				ops = []string{"in1"}
			}
			if !hasFileOperand(ops) || hasDash(ops) {
				continue
			}
		case KGetline, KGetlineV:
			plainSeen = true
		}
		b.add(dst, kind, defaultFile(kind, rng.Intn(60)), rng.Intn(NSpell))
	}
	c.Source = Source(c)
	return c
}
