// Package c12io holds the program IR, the AWK printer, the generators and the reference model
// of property C12 (NoExec / NoFileWrites / NoFileReads confine every program).
//
// A case is a straight-line list of I/O operations spread over BEGIN, one main rule and END.
// Because the harness builds the program from the IR, the model knows — without trusting
// goawk's parser or interpreter — which operation is the first one a set flag forbids, what
// every earlier operation must have left behind (stdout lines, files, sentinel files written by
// the fake shell) and that nothing later may have happened.
package c12io

import (
	"fmt"
	"strings"
)

// Flags are the three deny switches of interp.Config.
type Flags struct {
	NoExec       bool `json:"noexec,omitempty"`
	NoFileWrites bool `json:"nowrites,omitempty"`
	NoFileReads  bool `json:"noreads,omitempty"`
}

func (f Flags) String() string {
	b := []byte("---")
	if f.NoExec {
		b[0] = 'X'
	}
	if f.NoFileWrites {
		b[1] = 'W'
	}
	if f.NoFileReads {
		b[2] = 'R'
	}
	return string(b)
}

func (f Flags) Any() bool { return f.NoExec || f.NoFileWrites || f.NoFileReads }

// FlagsOf returns combination number i (0..7).
func FlagsOf(i int) Flags {
	return Flags{NoExec: i&1 != 0, NoFileWrites: i&2 != 0, NoFileReads: i&4 != 0}
}

// Operation kinds. The permission class each one needs is given by Class.
const (
	KPrintGt    = "print>"       // print "w<n>" > NAME
	KPrintApp   = "print>>"      // print "w<n>" >> NAME
	KPrintfGt   = "printf>"      // printf "%s\n", "w<n>" > NAME
	KPrintfApp  = "printf>>"     // printf "%s\n", "w<n>" >> NAME
	KGetlineF   = "getline<"     // getline < NAME          (sets $0)
	KGetlineVF  = "getlinev<"    // getline v < NAME
	KPrintPipe  = "print|"       // print "p<n>" | CMD
	KPrintfPipe = "printf|"      // printf "%s\n", "p<n>" | CMD
	KCmdGetline = "cmd|getline"  // CMD | getline          (sets $0)
	KCmdGetlnV  = "cmd|getlinev" // CMD | getline v
	KSystem     = "system"       // system(CMD)
	KSystemNone = "system-empty" // system(E) where E evaluates to the empty string: still starts the shell
	KGetline    = "getline"      // plain getline: next record of the operands / stdin (sets $0)
	KGetlineV   = "getlinev"     // plain getline v
	KClose      = "close"        // close(NAME) or close(CMD of op Ref)
	KDevStdout  = "dev>stdout"   // print "d<n>" > "/dev/stdout"
	KDevStderr  = "dev>>stderr"  // print "d<n>" >> "/dev/stderr"
	KDevNull    = "dev>null"     // print "w<n>" > "/dev/null"  (a real file outside the sandbox: a file write like any other)
	KStdinDash  = "getlinev<-"   // getline v < "-"  (standard input under its name "-")
	KSetArgv    = "setargv"      // ARGV[1] = NAME; ARGC = 2   (operand computed at run time; BEGIN only)
	KOperand    = "operand"      // not an Op: the main loop (or plain getline) opening a file operand
)

// Forms lists the op kinds that are I/O forms in their own right (used by the systematic family).
var Forms = []string{KPrintGt, KPrintApp, KPrintfGt, KPrintfApp, KGetlineF, KGetlineVF, KPrintPipe, KPrintfPipe,
	KCmdGetline, KCmdGetlnV, KSystem, KSystemNone, KGetline, KGetlineV, KDevStdout, KDevStderr, KDevNull, KStdinDash, KSetArgv}

// Class returns which permission an operation kind needs: "W" file write, "R" file read,
// "X" process start, "M" main input (R only if it has to open a file operand), "" none.
func Class(kind string) string {
	switch kind {
	case KPrintGt, KPrintApp, KPrintfGt, KPrintfApp:
		return "W"
	case KDevNull:
		return "N"
	case KGetlineF, KGetlineVF:
		return "R"
	case KPrintPipe, KPrintfPipe, KCmdGetline, KCmdGetlnV, KSystem, KSystemNone:
		return "X"
	case KGetline, KGetlineV:
		return "M"
	case KDevStdout, KDevStderr:
		return "D"
	}
	return ""
}

// Op is one I/O operation of the straight-line program.
type Op struct {
	K   string `json:"k"`
	N   int    `json:"n"`             // unique id inside the case; appears in payloads and sentinel names
	F   string `json:"f,omitempty"`   // logical file name (in1, out2, io1, ...)
	Sp  int    `json:"sp,omitempty"`  // how the name / command string is computed at run time
	Ref int    `json:"ref,omitempty"` // KClose of a command: N of the op whose command string is closed
	Cmd bool   `json:"cmd,omitempty"` // KClose: closes a command (Ref) rather than a file (F)
}

// NSpell is the number of name spellings (concatenation, sprintf, array element, field,
// variable built earlier, user function).
const NSpell = 6

// Case is one replayable C12 case.
type Case struct {
	Gen      string            `json:"gen"`
	Flags    Flags             `json:"flags"`
	OpenFile string            `json:"openfile"`        // "default" | "recorder" | "rooted"
	Mode     string            `json:"mode"`            // "api" (buffers) | "traced" (own process under strace, real descriptors)
	Prior    *Flags            `json:"prior,omitempty"` // the same Interpreter is first executed with these flags
	Begin    []Op              `json:"begin,omitempty"`
	Main     []Op              `json:"main,omitempty"`
	End      []Op              `json:"end,omitempty"`
	HasMain  bool              `json:"has_main,omitempty"`
	HasEnd   bool              `json:"has_end,omitempty"`
	Operands []string          `json:"operands,omitempty"` // "-" | "v=1" | logical file names
	Stdin    string            `json:"stdin"`
	Files    map[string]string `json:"files"`            // files present in the sandbox before the run
	Source   string            `json:"source,omitempty"` // printed program (informational; rebuilt from the IR on replay)
}

// Open-file kinds.
const (
	OFDefault  = "default"  // Config.OpenFile == nil (os.OpenFile)
	OFRecorder = "recorder" // wrapper around os.OpenFile that records every call
	OFRooted   = "rooted"   // names live under the virtual directory /vroot; only the wrapper can resolve them
)

// VRoot is the virtual directory prefix used with OFRooted: a path under it exists nowhere on
// the real file system, so an open that bypasses Config.OpenFile cannot succeed and shows up
// in the syscall log as an open of a /vroot path.
const VRoot = "/vroot-c12"

// AllOps returns the ops of the case in program order of appearance (BEGIN, main, END).
func (c *Case) AllOps() []Op {
	var l []Op
	l = append(l, c.Begin...)
	l = append(l, c.Main...)
	l = append(l, c.End...)
	return l
}

// FileNames is the fixed universe of logical file names.
var FileNames = []string{"in1", "in2", "in9", "out1", "out2", "out3", "io1"}

// ---- printer -----------------------------------------------------------------------------

func q(s string) string { return fmt.Sprintf("%q", s) }

// nameExpr returns statements to run first and the expression that evaluates to the path of F.
func nameExpr(f string, sp int) (pre, expr string) {
	switch sp % NSpell {
	case 0:
		return "", `(D "/` + f + `")`
	case 1:
		return "", `sprintf("%s/%s", D, ` + q(f) + `)`
	case 2:
		return "", `A[` + q(f) + `]`
	case 3:
		return `$0 = "zz " D "/` + f + ` yy"; `, `$2`
	case 4:
		return "", "V_" + f
	default:
		return "", `nm(` + q(f) + `)`
	}
}

// CmdBody is the vsh command of an exec op with RD standing for the real sandbox directory.
// Every command ends by creating the sentinel ran<n>, so a process start is visible in the
// directory snapshot whatever else happens.
func CmdBody(op Op) []string { // pieces alternate literal, RD, literal, RD, ...
	n := fmt.Sprint(op.N)
	switch op.K {
	case KPrintPipe, KPrintfPipe:
		return []string{"catto:", "/sink" + n + ";mark:", "/ran" + n}
	case KCmdGetline, KCmdGetlnV:
		return []string{"emit:c" + n + ";mark:", "/ran" + n}
	default: // system
		return []string{"mark:", "/ran" + n + ";exit:3"}
	}
}

// CmdString is the command string goawk hands to the shell when RD = rd.
func CmdString(op Op, rd string) string {
	return strings.Join(CmdBody(op), rd)
}

func cmdExpr(op Op, sp int) (pre, expr string) {
	parts := CmdBody(op)
	switch sp % 3 {
	case 0:
		var b strings.Builder
		b.WriteString("(")
		for i, p := range parts {
			if i > 0 {
				b.WriteString(" RD ")
			}
			b.WriteString(q(p))
		}
		b.WriteString(")")
		return "", b.String()
	case 1:
		args := strings.Repeat(", RD", len(parts)-1)
		return "", "sprintf(" + q(strings.Join(parts, "%s")) + args + ")"
	default:
		_, e := cmdExpr(op, 0)
		return fmt.Sprintf("C[%d] = %s; ", op.N, e), fmt.Sprintf("C[%d]", op.N)
	}
}

func opSource(c *Case, op Op) string {
	n := fmt.Sprint(op.N)
	var pre, e, s string
	switch op.K {
	case KPrintGt, KPrintApp, KPrintfGt, KPrintfApp:
		pre, e = nameExpr(op.F, op.Sp)
		redir := ">"
		if op.K == KPrintApp || op.K == KPrintfApp {
			redir = ">>"
		}
		if op.K == KPrintGt || op.K == KPrintApp {
			s = `print "w` + n + `" ` + redir + " " + e
		} else {
			s = `printf "%s\n", "w` + n + `" ` + redir + " " + e
		}
	case KGetlineF:
		pre, e = nameExpr(op.F, op.Sp)
		s = "r" + n + " = (getline < " + e + `); print "r` + n + `", r` + n + ", $0"
	case KGetlineVF:
		pre, e = nameExpr(op.F, op.Sp)
		s = "r" + n + " = (getline v" + n + " < " + e + `); print "r` + n + `", r` + n + ", v" + n
	case KPrintPipe:
		pre, e = cmdExpr(op, op.Sp)
		s = `print "p` + n + `" | ` + e
	case KPrintfPipe:
		pre, e = cmdExpr(op, op.Sp)
		s = `printf "%s\n", "p` + n + `" | ` + e
	case KCmdGetline:
		pre, e = cmdExpr(op, op.Sp)
		s = "r" + n + " = (" + e + ` | getline); print "r` + n + `", r` + n + ", $0"
	case KCmdGetlnV:
		pre, e = cmdExpr(op, op.Sp)
		s = "r" + n + " = (" + e + " | getline v" + n + `); print "r` + n + `", r` + n + ", v" + n
	case KSystem:
		pre, e = cmdExpr(op, op.Sp)
		s = "r" + n + " = system(" + e + `); print "s` + n + `", r` + n
	case KSystemNone:
		e = []string{`""`, "unset" + n, `substr("x", 2)`}[op.Sp%3]
		s = "r" + n + " = system(" + e + `); print "s` + n + `", r` + n
	case KGetline:
		s = "r" + n + ` = getline; print "g` + n + `", r` + n + ", $0"
	case KGetlineV:
		s = "r" + n + " = (getline v" + n + `); print "g` + n + `", r` + n + ", v" + n
	case KClose:
		if op.Cmd {
			for _, o := range c.AllOps() {
				if o.N == op.Ref && Class(o.K) == "X" {
					_, e = cmdExpr(o, 0)
				}
			}
			if e == "" {
				e = `"nothing"`
			}
		} else {
			pre, e = nameExpr(op.F, op.Sp)
		}
		s = "close(" + e + ")"
	case KDevStdout:
		s = `print "d` + n + `" > ("/dev/" "stdout")`
	case KDevStderr:
		s = `print "d` + n + `" >> ("/dev/" "stderr")`
	case KDevNull:
		s = `print "w` + n + `" > ("/dev/" "null")`
	case KStdinDash:
		s = "r" + n + " = (getline v" + n + ` < "-"); print "r` + n + `", r` + n + ", v" + n
	case KSetArgv:
		pre, e = nameExpr(op.F, op.Sp)
		s = "ARGV[1] = " + e + "; ARGC = 2"
	default:
		s = "# unknown op " + op.K
	}
	return "  " + pre + s + "\n" + `  print "k` + n + `"` + "\n"
}

// Source prints the AWK program of the case. It refers to two variables the harness passes
// through Config.Vars: D (the directory prefix of file names as the program sees them) and
// RD (the real sandbox directory, used inside command strings only).
func Source(c *Case) string {
	var b strings.Builder
	b.WriteString("function nm(s) { return D \"/\" s }\n")
	b.WriteString("BEGIN {\n")
	for _, f := range FileNames {
		fmt.Fprintf(&b, "  A[%q] = D \"/%s\"; V_%s = D; V_%s = V_%s \"/\" %q\n", f, f, f, f, f, f)
	}
	for _, op := range c.Begin {
		b.WriteString(opSource(c, op))
	}
	b.WriteString("}\n")
	if c.HasMain {
		b.WriteString("!md {\n  md = 1\n")
		for _, op := range c.Main {
			b.WriteString(opSource(c, op))
		}
		b.WriteString("}\n{ print \"rec:\" $0 }\n")
	}
	if c.HasEnd {
		b.WriteString("END {\n")
		for _, op := range c.End {
			b.WriteString(opSource(c, op))
		}
		b.WriteString("  print \"end\"\n}\n")
	}
	return b.String()
}
