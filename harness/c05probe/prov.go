package c05probe

import (
	"bytes"
	"fmt"
	"os"
	"path/filepath"
	"strings"

	"github.com/benhoyt/goawk/interp"
)

// Record and field separators used to deliver values as data. Generated values never contain
// these two bytes.
const (
	RS = 0x1e
	FS = 0x1f
)

// Case is one replayable interpreter run: a provenance, the formats and the delivered values.
type Case struct {
	Family  string   `json:"family"`
	Prov    string   `json:"prov"`
	ConvFmt string   `json:"convfmt,omitempty"`
	OFmt    string   `json:"ofmt,omitempty"`
	Values  [][]byte `json:"values,omitempty"` // delivered texts (base64 in JSON); pairs: a0 b0 a1 b1 ...
	Nums    []Num    `json:"nums,omitempty"`   // number family
}

// Num is one number of the number family: how it is produced in AWK and which float64 that is.
type Num struct {
	Src     string `json:"src"`  // decimal text (n-field) or AWK expression (n-expr)
	Bits    uint64 `json:"bits"` // the float64 it must be
	ConvFmt string `json:"convfmt"`
	OFmt    string `json:"ofmt"`
}

// Class of a provenance decides what the model demands.
const (
	ClassInput   = "input"   // input-derived text: numeric-string rules
	ClassString  = "string"  // a string made by the program: always compared as a string
	ClassNumber  = "number"  // a number
	ClassUnset   = "unset"   // never assigned
	ClassLawOnly = "lawonly" // the property is silent on the mode: only the consistency laws
)

// Prov is one way a value reaches the probes.
type Prov struct {
	Name     string
	Class    string
	Verbatim bool // the text the program sees must be the delivered bytes
	Single   bool // takes no values (unset provenances): one battery per run
	Pair     bool
	Accepts  func(v []byte) bool
	build    func(cs *Case, e *Env) (src string, cfg *interp.Config, err error)
	// cli, if set, makes the case run in the real goawk binary (.build/goawk -f prog args...)
	// instead of in-process: it returns the program, the command-line arguments after
	// "-f prog", the environment and standard input.
	cli func(cs *Case, e *Env) (src string, args, env []string, stdin []byte)
}

// cliSafe: what can travel through a command line, the environment and -v / var=value
// escape processing unchanged.
func cliSafe(v []byte) bool { return noSep(v) && !bytes.ContainsAny(v, "\\\n\x00") }

func cliProv(name string, cli func(cs *Case, e *Env) (string, []string, []string, []byte)) *Prov {
	return &Prov{Name: name, Class: ClassInput, Verbatim: true, Accepts: cliSafe, cli: cli}
}

func noSep(v []byte) bool { return bytes.IndexByte(v, RS) < 0 && bytes.IndexByte(v, FS) < 0 }

func prelude(conv, ofmt string) string {
	return "function o(s) { print length(s) \":\" s }\n" +
		fmt.Sprintf("BEGIN { ORS = \"\"; OFS = \"\"; RS = \"\\036\"; FS = \"\\037\"; CONVFMT = %s; OFMT = %s }\n",
			Quote([]byte(conv)), Quote([]byte(ofmt)))
}

// records renders the values as RS-terminated records, each optionally preceded by "x" FS so
// that the value is field 2.
func records(values [][]byte, asField2 bool) []byte {
	var b bytes.Buffer
	for _, v := range values {
		if asField2 {
			b.WriteByte('x')
			b.WriteByte(FS)
		}
		b.Write(v)
		b.WriteByte(RS)
	}
	return b.Bytes()
}

func stdinCfg(data []byte) *interp.Config {
	return &interp.Config{Stdin: bytes.NewReader(data)}
}

// recordProv: a main rule (or BEGIN loop) over records on standard input.
func recordProv(name, class string, verbatim, asField2 bool, body func() string) *Prov {
	return &Prov{Name: name, Class: class, Verbatim: verbatim, Accepts: noSep,
		build: func(cs *Case, e *Env) (string, *interp.Config, error) {
			return prelude(cs.ConvFmt, cs.OFmt) + body(), stdinCfg(records(cs.Values, asField2)), nil
		}}
}

// fileProv: the records are in a file read by getline < file or through "cat file | getline".
func fileProv(name string, asField2, cmd bool, body func(f string) string) *Prov {
	return &Prov{Name: name, Class: ClassInput, Verbatim: true, Accepts: noSep,
		build: func(cs *Case, e *Env) (string, *interp.Config, error) {
			path := filepath.Join(e.Dir, "c05-input.dat")
			if err := os.WriteFile(path, records(cs.Values, asField2), 0o644); err != nil {
				return "", nil, err
			}
			cfg := stdinCfg(nil)
			if cmd {
				cfg.ShellCommand = []string{"/bin/cat"} // "file" | getline runs: /bin/cat file
			}
			return prelude(cs.ConvFmt, cs.OFmt) + body(Quote([]byte(path))), cfg, nil
		}}
}

func mainRule(stmts string) string { return "{\n" + stmts + "}\n" }
func beginRule(stmts string) string {
	return "BEGIN {\n" + stmts + "}\n"
}

// Provs is the provenance table.
var Provs = buildProvs()

func buildProvs() map[string]*Prov {
	l := []*Prov{
		// ---- input-derived text ----
		recordProv("field", ClassInput, true, true, func() string { return mainRule(Code("$2")) }),
		recordProv("record", ClassInput, true, false, func() string { return mainRule(Code("$0")) }),
		recordProv("last-field", ClassInput, true, true, func() string { return mainRule(Code("$NF")) }),
		// the field was assigned by the program in the record before: the next record's field is input again
		recordProv("field-after-assign", ClassInput, true, true, func() string { return mainRule(Code("$2") + "$2 = \"s\"\n$1 = 7\n") }),
		// ... or in this record, before $0 was assigned (which splits it anew)
		recordProv("field-resplit", ClassInput, true, true, func() string {
			return mainRule("_r = $0\n$2 = \"s\"\n$1 = 7\n$0 = _r\n" + Code("$2"))
		}),
		recordProv("getline-rec-field-after-assign", ClassInput, true, true, func() string {
			return beginRule("while ((getline) > 0) {\n" + Code("$2") + "$2 = \"s\"\n}\n")
		}),
		recordProv("getline-var", ClassInput, true, false, func() string {
			return beginRule("while ((getline _x) > 0) {\n" + Code("_x") + "}\n")
		}),
		recordProv("getline-local", ClassInput, true, false, func() string {
			return "function g(   _x, _j, _n, _c, _key, _A) {\nwhile ((getline _x) > 0) {\n" + Code("_x") + "}\n}\n" + beginRule("g()\n")
		}),
		recordProv("getline-elem", ClassInput, true, false, func() string {
			return beginRule("while ((getline _E[\"k\"]) > 0) {\n" + Code("_E[\"k\"]") + "}\n")
		}),
		recordProv("getline-rec", ClassInput, true, false, func() string {
			return beginRule("while ((getline) > 0) {\n" + Code("$0") + "}\n")
		}),
		recordProv("getline-rec-field", ClassInput, true, true, func() string {
			return beginRule("while ((getline) > 0) {\n" + Code("$2") + "}\n")
		}),
		fileProv("getline-file-var", false, false, func(f string) string {
			return beginRule("while ((getline _x < " + f + ") > 0) {\n" + Code("_x") + "}\n")
		}),
		fileProv("getline-file-rec", false, false, func(f string) string {
			return beginRule("while ((getline < " + f + ") > 0) {\n" + Code("$0") + "}\n")
		}),
		fileProv("getline-file-field", true, false, func(f string) string {
			return beginRule("while ((getline < " + f + ") > 0) {\n" + Code("$2") + "}\n")
		}),
		fileProv("cmd-getline-var", false, true, func(f string) string {
			return beginRule("while ((" + f + " | getline _x) > 0) {\n" + Code("_x") + "}\n")
		}),
		fileProv("cmd-getline-rec", false, true, func(f string) string {
			return beginRule("while ((" + f + " | getline) > 0) {\n" + Code("$0") + "}\n")
		}),
		recordProv("split-literal", ClassInput, true, true, func() string {
			return mainRule("split($0, _S, \"\\037\")\n" + Code("_S[2]"))
		}),
		recordProv("split-fs", ClassInput, true, true, func() string {
			return mainRule("split($0, _S)\n" + Code("_S[2]"))
		}),
		recordProv("split-regex", ClassInput, true, true, func() string {
			return mainRule("split($0, _S, \"\\037+\")\n" + Code("_S[2]"))
		}),
		recordProv("assigned-var", ClassInput, true, true, func() string { return mainRule("_x = $2\n" + Code("_x")) }),
		recordProv("assigned-elem", ClassInput, true, true, func() string {
			return mainRule("_E[\"k\"] = $2\n" + Code("_E[\"k\"]"))
		}),
		recordProv("param", ClassInput, true, true, func() string { return FuncDecl() + mainRule("bat($2)\n") }),
		{Name: "argv", Class: ClassInput, Verbatim: true, Accepts: func([]byte) bool { return true },
			build: func(cs *Case, e *Env) (string, *interp.Config, error) {
				cfg := stdinCfg(nil)
				for _, v := range cs.Values {
					cfg.Args = append(cfg.Args, string(v))
				}
				return prelude(cs.ConvFmt, cs.OFmt) + beginRule("for (_i = 1; _i < ARGC; _i++) {\n"+Code("ARGV[_i]")+"}\n"), cfg, nil
			}},
		{Name: "environ", Class: ClassInput, Verbatim: true, Accepts: func([]byte) bool { return true },
			build: func(cs *Case, e *Env) (string, *interp.Config, error) {
				cfg := stdinCfg(nil)
				for i, v := range cs.Values {
					cfg.Environ = append(cfg.Environ, fmt.Sprintf("k%d", i+1), string(v))
				}
				return prelude(cs.ConvFmt, cs.OFmt) +
					beginRule(fmt.Sprintf("for (_i = 1; _i <= %d; _i++) {\n", len(cs.Values))+Code("ENVIRON[\"k\" _i]")+"}\n"), cfg, nil
			}},
		{Name: "vars", Class: ClassInput, Verbatim: true, Accepts: func([]byte) bool { return true },
			build: func(cs *Case, e *Env) (string, *interp.Config, error) {
				cfg := stdinCfg(nil)
				var sb strings.Builder
				for i, v := range cs.Values {
					cfg.Vars = append(cfg.Vars, fmt.Sprintf("v%d", i+1), string(v))
					fmt.Fprintf(&sb, "bat(v%d)\n", i+1)
				}
				return prelude(cs.ConvFmt, cs.OFmt) + FuncDecl() + beginRule(sb.String()), cfg, nil
			}},
		// var=value operands: the value goes through lexer.Unescape (which stops at a NUL) and
		// must fit the one-line var=value pattern, so no backslash, no newline, no NUL.
		{Name: "operand", Class: ClassInput, Verbatim: true,
			Accepts: func(v []byte) bool { return !bytes.ContainsAny(v, "\\\n\x00") },
			build: func(cs *Case, e *Env) (string, *interp.Config, error) {
				cfg := stdinCfg(nil)
				var sb strings.Builder
				for i, v := range cs.Values {
					cfg.Args = append(cfg.Args, fmt.Sprintf("v%d=%s", i+1, v))
					fmt.Fprintf(&sb, "bat(v%d)\n", i+1)
				}
				return prelude(cs.ConvFmt, cs.OFmt) + FuncDecl() + "END {\n" + sb.String() + "}\n", cfg, nil
			}},
		// CSV input mode: field 2 of a quoted CSV line (typing of the field only; CSV parsing
		// itself is C08's business, so the observed text is what is judged).
		{Name: "csv-field", Class: ClassInput, Verbatim: true,
			Accepts: func(v []byte) bool { return !bytes.ContainsAny(v, "\r\n") },
			build: func(cs *Case, e *Env) (string, *interp.Config, error) {
				var b bytes.Buffer
				for _, v := range cs.Values {
					b.WriteString("x,\"")
					b.Write(bytes.ReplaceAll(v, []byte{'"'}, []byte{'"', '"'}))
					b.WriteString("\"\n")
				}
				cfg := stdinCfg(b.Bytes())
				cfg.InputMode = interp.CSVMode
				src := "function o(s) { print length(s) \":\" s }\n" +
					fmt.Sprintf("BEGIN { ORS = \"\"; OFS = \"\"; CONVFMT = %s; OFMT = %s }\n", Quote([]byte(cs.ConvFmt)), Quote([]byte(cs.OFmt))) +
					mainRule(Code("$2"))
				return src, cfg, nil
			}},
		// ---- the same through the command-line program (goawk.go): -v, var=value, ARGV, ENVIRON, stdin ----
		cliProv("cli-v", func(cs *Case, e *Env) (string, []string, []string, []byte) {
			var args []string
			var sb strings.Builder
			for i, v := range cs.Values {
				args = append(args, "-v", fmt.Sprintf("v%d=%s", i+1, v))
				fmt.Fprintf(&sb, "bat(v%d)\n", i+1)
			}
			// options must precede -f's operands: they are returned first and Run puts them before -f
			return prelude(cs.ConvFmt, cs.OFmt) + FuncDecl() + beginRule(sb.String()), args, nil, nil
		}),
		cliProv("cli-operand", func(cs *Case, e *Env) (string, []string, []string, []byte) {
			args := []string{"--"}
			var sb strings.Builder
			for i, v := range cs.Values {
				args = append(args, fmt.Sprintf("v%d=%s", i+1, v))
				fmt.Fprintf(&sb, "bat(v%d)\n", i+1)
			}
			return prelude(cs.ConvFmt, cs.OFmt) + FuncDecl() + "END {\n" + sb.String() + "}\n", args, nil, nil
		}),
		cliProv("cli-argv", func(cs *Case, e *Env) (string, []string, []string, []byte) {
			args := []string{"--"}
			for _, v := range cs.Values {
				args = append(args, string(v))
			}
			return prelude(cs.ConvFmt, cs.OFmt) + beginRule("for (_i = 1; _i < ARGC; _i++) {\n"+Code("ARGV[_i]")+"}\n"), args, nil, nil
		}),
		cliProv("cli-environ", func(cs *Case, e *Env) (string, []string, []string, []byte) {
			var env []string
			for i, v := range cs.Values {
				env = append(env, fmt.Sprintf("k%d=%s", i+1, v))
			}
			return prelude(cs.ConvFmt, cs.OFmt) +
				beginRule(fmt.Sprintf("for (_i = 1; _i <= %d; _i++) {\n", len(cs.Values))+Code("ENVIRON[\"k\" _i]")+"}\n"), nil, env, nil
		}),
		cliProv("cli-field", func(cs *Case, e *Env) (string, []string, []string, []byte) {
			return prelude(cs.ConvFmt, cs.OFmt) + mainRule(Code("$2")), nil, nil, records(cs.Values, true)
		}),
		// ---- strings made by the program ----
		{Name: "string-constant", Class: ClassString, Verbatim: true, Accepts: func([]byte) bool { return true },
			build: func(cs *Case, e *Env) (string, *interp.Config, error) {
				var sb strings.Builder
				for _, v := range cs.Values {
					fmt.Fprintf(&sb, "bat(%s)\n", Quote(v))
				}
				return prelude(cs.ConvFmt, cs.OFmt) + FuncDecl() + beginRule(sb.String()), stdinCfg(nil), nil
			}},
		recordProv("concat", ClassString, true, true, func() string { return mainRule(Code(`$2 ""`)) }),
		recordProv("assigned-concat", ClassString, true, true, func() string { return mainRule("_x = $2 \"\"\n" + Code("_x")) }),
		recordProv("substr", ClassString, true, true, func() string { return mainRule(Code(`substr($2, 1)`)) }),
		recordProv("sprintf-s", ClassString, true, true, func() string { return mainRule(Code(`sprintf("%s", $2)`)) }),
		recordProv("sub-target", ClassString, true, true, func() string {
			return mainRule("_x = $2\nsub(/^/, \"\", _x)\n" + Code("_x"))
		}),
		// ---- the property is silent: consistency laws only ----
		recordProv("forin-key", ClassLawOnly, false, true, func() string {
			return mainRule("delete _F\n_F[$2] = 1\nfor (_fk in _F) {\n" + Code("_fk") + "}\n")
		}),
		recordProv("missing-field", ClassLawOnly, false, true, func() string { return mainRule(Code("$(NF+1)")) }),
		recordProv("assigned-field", ClassLawOnly, false, true, func() string { return mainRule("$3 = $2\n" + Code("$3")) }),
		// ---- unset ----
		{Name: "unset-global", Class: ClassUnset, Single: true,
			build: func(cs *Case, e *Env) (string, *interp.Config, error) {
				return prelude(cs.ConvFmt, cs.OFmt) + beginRule(Code("_UV")), stdinCfg(nil), nil
			}},
		{Name: "unset-elem", Class: ClassUnset, Single: true,
			build: func(cs *Case, e *Env) (string, *interp.Config, error) {
				return prelude(cs.ConvFmt, cs.OFmt) + beginRule(Code("_UA[\"nokey\"]")), stdinCfg(nil), nil
			}},
		{Name: "unset-param", Class: ClassUnset, Single: true,
			build: func(cs *Case, e *Env) (string, *interp.Config, error) {
				return prelude(cs.ConvFmt, cs.OFmt) + FuncDecl() + beginRule("bat()\n"), stdinCfg(nil), nil
			}},
		// ---- numbers ----
		// n-field: the decimal text of the number arrives as field 3 and is made a number by
		// "+ 0"; CONVFMT and OFMT arrive with it (they change from record to record).
		{Name: "n-field", Class: ClassNumber,
			build: func(cs *Case, e *Env) (string, *interp.Config, error) {
				var b bytes.Buffer
				for _, n := range cs.Nums {
					fmt.Fprintf(&b, "%s%c%s%c%s%c", n.ConvFmt, FS, n.OFmt, FS, n.Src, RS)
				}
				return prelude("%.6g", "%.6g") + mainRule("CONVFMT = $1 \"\"\nOFMT = $2 \"\"\n_x = $3 + 0\n"+Code("_x")), stdinCfg(b.Bytes()), nil
			}},
		// n-expr: the number is a literal or an expression in the program text.
		{Name: "n-expr", Class: ClassNumber,
			build: func(cs *Case, e *Env) (string, *interp.Config, error) {
				var sb strings.Builder
				for _, n := range cs.Nums {
					fmt.Fprintf(&sb, "CONVFMT = %s; OFMT = %s\nbat(%s)\n", Quote([]byte(n.ConvFmt)), Quote([]byte(n.OFmt)), n.Src)
				}
				return prelude("%.6g", "%.6g") + FuncDecl() + beginRule(sb.String()), stdinCfg(nil), nil
			}},
		// n-inline: same, but the expression is the probed operand itself (re-evaluated by every probe).
		{Name: "n-inline", Class: ClassNumber,
			build: func(cs *Case, e *Env) (string, *interp.Config, error) {
				var sb strings.Builder
				for _, n := range cs.Nums {
					fmt.Fprintf(&sb, "CONVFMT = %s; OFMT = %s\n%s", Quote([]byte(n.ConvFmt)), Quote([]byte(n.OFmt)), Code(n.Src))
				}
				return prelude("%.6g", "%.6g") + beginRule(sb.String()), stdinCfg(nil), nil
			}},
	}
	l = append(l, pairProvs()...)
	m := map[string]*Prov{}
	for _, p := range l {
		if m[p.Name] != nil {
			panic("duplicate provenance " + p.Name)
		}
		m[p.Name] = p
	}
	return m
}

// ProvNames returns the names of the provenances of a class, in a fixed order.
func ProvNames(classes ...string) []string {
	var l []string
	for _, name := range provOrder {
		p := Provs[name]
		for _, c := range classes {
			if p.Class == c && !p.Pair {
				l = append(l, name)
			}
		}
	}
	return l
}

var provOrder = []string{
	"field", "record", "last-field", "field-after-assign", "field-resplit", "getline-rec-field-after-assign", "getline-var", "getline-local", "getline-elem", "getline-rec", "getline-rec-field",
	"getline-file-var", "getline-file-rec", "getline-file-field", "cmd-getline-var", "cmd-getline-rec",
	"split-literal", "split-fs", "split-regex", "assigned-var", "assigned-elem", "param",
	"argv", "environ", "vars", "operand", "csv-field",
	"cli-v", "cli-operand", "cli-argv", "cli-environ", "cli-field",
	"string-constant", "concat", "assigned-concat", "substr", "sprintf-s", "sub-target",
	"forin-key", "missing-field", "assigned-field",
	"unset-global", "unset-elem", "unset-param",
	"n-field", "n-expr", "n-inline",
}
