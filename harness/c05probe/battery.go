// Package c05probe builds the AWK probe programs of property C05, delivers values to them in
// every provenance, decodes the length-prefixed results and judges them.
//
// One "battery" is a fixed list of probes applied to one operand expression V (a field, a
// variable filled by getline, ARGV[i], a literal, ...).  Per value the program prints
//
//	text        V ""                                  (length-prefixed)
//	raw         print "\001", V, "\002" with OFS=""   (OFMT path for numbers, verbatim for text)
//	arithmetic  sprintf("%.17g", e) for e in V+0, -V, +V, V*1, 0+V, V/1, V-0
//	ctext       (V+0) ""                              (CONVFMT text of the number V stands for)
//	length      length(V) ""
//	key         the for-in key after  A[V] = 1
//	bits        one character per boolean probe: six comparison operators against numeric
//	            constants, against the number V+0 itself, against string constants, against an
//	            unset variable — each as an expression value, as an `if` condition (inverted
//	            fused jump), a do-while condition (direct fused jump), a ?: condition and with
//	            the operands swapped — plus the truth tests !V, !!V, ?:, if, &&, ||, while, do.
package c05probe

import (
	"fmt"
	"strings"
)

var Ops = []string{"<", "<=", "==", "!=", ">", ">="}

var swapOp = map[string]string{"<": ">", "<=": ">=", "==": "==", "!=": "!=", ">": "<", ">=": "<="}

// K are the numeric constants every value is compared with; KSrc their AWK spelling.
var K = []float64{0, 1, -1, 10, 0.5, 1000000}
var KSrc = []string{"0", "1", "(-1)", "10", "0.5", "1000000"}

// S are the string constants every value is compared with (always a string comparison).
var S = []string{"", "0", "1", "10", "a", " 1", "+1", "1e0"}

// ArithSrc are the arithmetic probes; ArithNeg marks the ones whose result is -N.
var ArithSrc = []string{"%s+0", "-%s", "+%s", "%s*1", "0+%s", "%s/1", "%s-0"}
var ArithNeg = []bool{false, true, false, false, false, false, false}

// Probe is one boolean probe of the battery.
type Probe struct {
	Kind string // K (numeric constant), D (dynamic: V+0), S (string constant), U (unset variable), T (truth of V)
	Arg  int    // index into K or S
	Op   string // comparison operator in the orientation "V op other"
	Form string // E I D T W and RE RI (operands swapped, operator mirrored); for Kind T the truth form
	Inv  bool   // the printed bit is the negation of the probed condition
}

func (p Probe) ID() string {
	switch p.Kind {
	case "K":
		return fmt.Sprintf("V%s%s/%s", p.Op, KSrc[p.Arg], p.Form)
	case "D":
		return fmt.Sprintf("V%s(V+0)/%s", p.Op, p.Form)
	case "S":
		return fmt.Sprintf("V%s%q/%s", p.Op, S[p.Arg], p.Form)
	case "U":
		return fmt.Sprintf("V%sunset/%s", p.Op, p.Form)
	}
	return "truth/" + p.Form
}

// CoverKey is the coverage item of a probe outcome (constants collapsed).
func (p Probe) CoverKey(bit bool) string {
	b := "0"
	if bit {
		b = "1"
	}
	if p.Kind == "T" {
		return "T|" + p.Form + "|" + b
	}
	return p.Kind + "|" + p.Op + "|" + p.Form + "|" + b
}

// Inverted reports that the probe goes through an inverted fused comparison jump
// (if / ?: / while-entry compile "a < b" to JumpGreaterOrEqual over the body).
func (p Probe) Inverted() bool {
	return p.Kind != "T" && (p.Form == "I" || p.Form == "T" || p.Form == "W" || p.Form == "RI")
}

func (p Probe) Ordering() bool { return p.Op != "==" && p.Op != "!=" }

// Battery is the fixed probe list (built once).
var Battery = buildBattery()

func buildBattery() []Probe {
	var l []Probe
	for k := range K {
		for _, op := range Ops {
			for _, f := range []string{"E", "I", "D", "T", "RE", "RI"} {
				l = append(l, Probe{Kind: "K", Arg: k, Op: op, Form: f})
			}
			if k == 0 {
				l = append(l, Probe{Kind: "K", Arg: k, Op: op, Form: "W"})
			}
		}
	}
	for _, op := range Ops {
		for _, f := range []string{"E", "I", "D"} {
			l = append(l, Probe{Kind: "D", Op: op, Form: f})
		}
	}
	for s := range S {
		for _, op := range Ops {
			for _, f := range []string{"E", "I", "RE"} {
				l = append(l, Probe{Kind: "S", Arg: s, Op: op, Form: f})
			}
		}
	}
	for _, op := range Ops {
		for _, f := range []string{"E", "I", "RE", "D"} {
			l = append(l, Probe{Kind: "U", Op: op, Form: f})
		}
	}
	for _, f := range []string{"not", "notnot", "tern", "if", "ifnot", "and", "or", "while", "do"} {
		l = append(l, Probe{Kind: "T", Form: f, Inv: f == "not" || f == "ifnot"})
	}
	return l
}

// Names of the helper variables used by the battery text. UnsetVar must never be assigned.
const UnsetVar = "_U"

// Code returns the AWK statements of the battery for operand expression v. The statements
// use the variables _j _n _c _key _A and the function o(); the probe bits are printed one by
// one (ORS and OFS are empty) and closed by ';'.
func Code(v string) string {
	V := "(" + v + ")"
	var sb strings.Builder
	w := func(format string, a ...any) { fmt.Fprintf(&sb, format+"\n", a...) }
	w(`o(%s "")`, V)
	w(`print "\001", %s, "\002"`, V)
	for _, a := range ArithSrc {
		w(`o(sprintf("%%.17g", %s))`, fmt.Sprintf(a, V))
	}
	w("_n = %s + 0\n_c = _n \"\"\no(_c)", V)
	w(`o(length(%s) "")`, V)
	w("delete _A\n_A[%s] = 1\nfor (_key in _A) o(_key)", V)
	for _, p := range Battery {
		var cond string
		switch p.Kind {
		case "T":
			switch p.Form {
			case "not":
				w(`print (!%s)`, V)
			case "notnot":
				w(`print (!(!%s))`, V)
			case "tern":
				w(`print (%s ? "1" : "0")`, V)
			case "if":
				w(`if (%s) print "1"; else print "0"`, V)
			case "ifnot":
				w(`if (!%s) print "1"; else print "0"`, V)
			case "and":
				w(`print (%s && 1)`, V)
			case "or":
				w(`print (%s || 0)`, V)
			case "while":
				w("_j = 0\nwhile (%s) { _j = 1; break }\nprint _j", V)
			case "do":
				w("_j = 0\ndo { if (++_j == 2) break } while (%s)\nprint (_j - 1)", V)
			}
			continue
		case "K":
			cond = orient(V, p.Op, KSrc[p.Arg], p.Form)
		case "D":
			cond = orient(V, p.Op, "_n", p.Form)
		case "S":
			cond = orient(V, p.Op, Quote([]byte(S[p.Arg])), p.Form)
		case "U":
			cond = orient(V, p.Op, UnsetVar, p.Form)
		}
		switch strings.TrimPrefix(p.Form, "R") {
		case "E":
			w(`print (%s)`, cond)
		case "I":
			w(`if (%s) print "1"; else print "0"`, cond)
		case "D":
			w("_j = 0\ndo { if (++_j == 2) break } while (%s)\nprint (_j - 1)", cond)
		case "T":
			w(`print (%s ? "1" : "0")`, cond) // no inner parentheses: a grouped condition is not fused
		case "W":
			w("_j = 0\nwhile (%s) { _j = 1; break }\nprint _j", cond)
		}
	}
	w(`print ";"`)
	return sb.String()
}

func orient(V, op, other, form string) string {
	if strings.HasPrefix(form, "R") {
		return other + " " + swapOp[op] + " " + V
	}
	return V + " " + op + " " + other
}

// FuncDecl is the battery as a function bat(v).
func FuncDecl() string {
	return "function bat(v,   _j, _n, _c, _key, _A) {\n" + Code("v") + "}\n"
}

// Quote spells b as an AWK string literal (octal escapes for everything unusual, so that the
// source is plain ASCII without NUL).
func Quote(b []byte) string {
	var sb strings.Builder
	sb.WriteByte('"')
	for _, c := range b {
		if c >= 0x20 && c < 0x7f && c != '"' && c != '\\' && c != '/' {
			sb.WriteByte(c)
		} else {
			fmt.Fprintf(&sb, "\\%03o", c)
		}
	}
	sb.WriteByte('"')
	return sb.String()
}

// Obs is the decoded output of one battery.
type Obs struct {
	Text  string
	Raw   string
	Arith []string
	CText string
	Len   string
	Key   string
	Bits  string
}

// decoder reads the length-prefixed items.
type decoder struct {
	b   string
	pos int
}

func (d *decoder) item() (string, error) {
	i := d.pos
	n := 0
	digits := 0
	for i < len(d.b) && d.b[i] >= '0' && d.b[i] <= '9' && digits < 9 {
		n = n*10 + int(d.b[i]-'0')
		i++
		digits++
	}
	if digits == 0 || i >= len(d.b) || d.b[i] != ':' {
		return "", fmt.Errorf("bad length prefix at offset %d: %q", d.pos, clip(d.b[d.pos:], 40))
	}
	i++
	if i+n > len(d.b) {
		return "", fmt.Errorf("item of %d bytes at offset %d runs past the end of the output", n, d.pos)
	}
	d.pos = i + n
	return d.b[i : i+n], nil
}

// raw reads \x01 text \x02 (the un-prefixed print of V) where text is expected to be `want`
// if that fits, else everything up to the next \x02. The two control bytes occur in no
// CONVFMT/OFMT of the workload and in no generated value.
func (d *decoder) raw(want string) (string, error) {
	if d.pos >= len(d.b) || d.b[d.pos] != 1 {
		return "", fmt.Errorf("missing \\x01 of the raw print at offset %d: %q", d.pos, clip(d.b[d.pos:], 40))
	}
	rest := d.b[d.pos+1:]
	if strings.HasPrefix(rest, want+"\x02") {
		d.pos += 1 + len(want) + 1
		return want, nil
	}
	j := strings.IndexByte(rest, 2)
	if j < 0 {
		return "", fmt.Errorf("missing \\x02 of the raw print at offset %d", d.pos)
	}
	d.pos += 1 + j + 1
	return rest[:j], nil
}

// Decode reads one battery's output.
func (d *decoder) Decode() (o Obs, err error) {
	if o.Text, err = d.item(); err != nil {
		return
	}
	if o.Raw, err = d.raw(o.Text); err != nil {
		return
	}
	for range ArithSrc {
		var s string
		if s, err = d.item(); err != nil {
			return
		}
		o.Arith = append(o.Arith, s)
	}
	if o.CText, err = d.item(); err != nil {
		return
	}
	if o.Len, err = d.item(); err != nil {
		return
	}
	if o.Key, err = d.item(); err != nil {
		return
	}
	o.Bits, err = d.bits(len(Battery))
	return
}

// bits reads the n one-character probe results and the ';' that ends a battery.
func (d *decoder) bits(n int) (string, error) {
	if d.pos+n+1 > len(d.b) {
		return "", fmt.Errorf("output ends inside the %d probe bits at offset %d", n, d.pos)
	}
	s := d.b[d.pos : d.pos+n]
	for i := 0; i < n; i++ {
		if s[i] != '0' && s[i] != '1' {
			return "", fmt.Errorf("probe %d (%s) printed %q instead of 0 or 1", i, clip(s[i:], 12), s[i])
		}
	}
	if d.b[d.pos+n] != ';' {
		return "", fmt.Errorf("battery of %d probe bits is not followed by ';' at offset %d: %q", n, d.pos+n, clip(d.b[d.pos+n:], 20))
	}
	d.pos += n + 1
	return s, nil
}

func clip(s string, n int) string {
	if len(s) > n {
		return s[:n] + "..."
	}
	return s
}
