package c05probe

import (
	"bytes"
	"fmt"
	"math"
	"os"
	"os/exec"
	"path/filepath"
	"sort"
	"strconv"
	"strings"

	"verifharness/c05model"
	"verifharness/run"
)

// Env is the per-process state of the prober.
type Env struct {
	Libc       *c05model.Libc
	Dir        string              // scratch directory (files for getline < file)
	Goawk      string              // the goawk binary (cli-* provenances)
	ProbeCover map[string]struct{} // probe outcomes seen (kind|op|form|bit)
	Probes     int64               // boolean probes judged
	kText      map[string][]string
}

func NewEnv(libc *c05model.Libc, dir, goawk string) *Env {
	return &Env{Libc: libc, Dir: dir, Goawk: goawk, ProbeCover: map[string]struct{}{}, kText: map[string][]string{}}
}

// Finding is one disagreement. Item is the index of the value (or pair) in the case.
type Finding struct {
	Item     int
	Kind     string
	Class    string
	Summary  string
	Expected string
	Observed string
}

// Report describes one judged value (for coverage and evidence).
type Report struct {
	Item    int
	Text    string
	Modes   string // numeric | string | ambiguous | none
	N       float64
	Classes []string // spelling classes of the text (model)
	Model   string   // mode the model demanded (or dont-care / n/a)
	NumCls  string   // number class (number family)
	Fmt     string   // CONVFMT|OFMT (number family)
	PairKey string   // pair family: classA|classB|mode
}

// Result of one case.
type Result struct {
	Items    int
	Reports  []Report
	Findings []Finding
	RunErr   string // the probe program itself failed (parse error, runtime error, undecodable output)
	Outcome  run.Outcome
	Source   string
}

// Run executes one case and judges every battery in it.
func Run(cs *Case, e *Env) (res Result) {
	p := Provs[cs.Prov]
	if p == nil {
		res.RunErr = "unknown provenance " + cs.Prov
		return
	}
	var out run.Outcome
	if p.cli != nil {
		out = e.runCLI(cs, p, &res)
		if res.RunErr != "" {
			return
		}
	} else {
		src, cfg, err := p.build(cs, e)
		if err != nil {
			res.RunErr = "build: " + err.Error()
			return
		}
		res.Source = src
		prog, perr, pm := run.Parse(src, nil)
		if pm != "" {
			res.RunErr = "parser panic: " + pm
			return
		}
		if perr != nil {
			res.RunErr = "probe program does not parse: " + perr.Error()
			return
		}
		out = run.Exec(prog, cfg, run.Opts{StepLimit: 4_000_000_000})
	}
	res.Outcome = out
	if out.Panic != "" || out.Err != "" || out.StepLimit {
		res.RunErr = "probe program failed: " + out.String()
		if len(res.RunErr) > 1500 {
			res.RunErr = res.RunErr[:1500]
		}
		return
	}
	n := len(cs.Values)
	switch {
	case p.Single:
		n = 1
	case p.Pair:
		n = len(cs.Values) / 2
	case p.Class == ClassNumber:
		n = len(cs.Nums)
	}
	res.Items = n
	d := &decoder{b: out.Stdout}
	for i := 0; i < n; i++ {
		if p.Pair {
			o, err := d.DecodePair()
			if err != nil {
				res.RunErr = fmt.Sprintf("undecodable output for pair %d: %v", i, err)
				return
			}
			e.judgePair(cs, p, i, o, &res)
			continue
		}
		o, err := d.Decode()
		if err != nil {
			res.RunErr = fmt.Sprintf("undecodable output for value %d: %v", i, err)
			return
		}
		e.judge(cs, p, i, o, &res)
	}
	if d.pos != len(out.Stdout) {
		res.RunErr = fmt.Sprintf("%d values delivered but the output continues after %d batteries: %q", n, n, clip(out.Stdout[d.pos:], 80))
	}
	return
}

// runCLI runs a cli-* case in the goawk binary: goawk [options] -f prog [operands], where the
// arguments returned by the provenance that come before "--" ... are options.
func (e *Env) runCLI(cs *Case, p *Prov, res *Result) (out run.Outcome) {
	src, args, env, stdin := p.cli(cs, e)
	res.Source = src
	pf := filepath.Join(e.Dir, "c05-prog.awk")
	if err := os.WriteFile(pf, []byte(src), 0o644); err != nil {
		res.RunErr = "build: " + err.Error()
		return
	}
	var opts, operands []string
	for i, a := range args {
		if a == "--" {
			operands = args[i:]
			break
		}
		opts = append(opts, a)
	}
	argv := append(append(opts, "-f", pf), operands...)
	cmd := exec.Command(e.Goawk, argv...)
	cmd.Env = append([]string{"PATH=/nonexistent"}, env...)
	cmd.Stdin = bytes.NewReader(stdin)
	var so, se bytes.Buffer
	cmd.Stdout, cmd.Stderr = &so, &se
	err := cmd.Run()
	out.Stdout, out.Stderr = so.String(), se.String()
	if err != nil {
		out.Err = err.Error() + ": " + clip(out.Stderr, 300)
	}
	return out
}

// ParseNum reads the %.17g text printed by the probes.
func ParseNum(s string) (float64, bool) {
	t := strings.ToLower(strings.TrimSpace(s))
	switch strings.TrimLeft(t, "+-") {
	case "nan":
		return math.NaN(), true
	case "inf", "infinity":
		if strings.HasPrefix(t, "-") {
			return math.Inf(-1), true
		}
		return math.Inf(1), true
	}
	f, err := strconv.ParseFloat(t, 64)
	if err != nil {
		return 0, false
	}
	return f, true
}

// SameNum: equal as numbers, or both NaN.
func SameNum(a, b float64) bool { return a == b || (math.IsNaN(a) && math.IsNaN(b)) }

// kTexts returns the CONVFMT texts of the constants K (libc, integers exact).
func (e *Env) kTexts(conv string) []string {
	if t, ok := e.kText[conv]; ok {
		return t
	}
	t := make([]string, len(K))
	for i, k := range K {
		alts, _, err := e.Libc.NumText(conv, k)
		if err != nil || len(alts) == 0 {
			t[i] = "?"
			continue
		}
		t[i] = alts[0]
	}
	e.kText[conv] = t
	return t
}

// Expect computes the truth of the condition probed by p under a comparison-mode hypothesis.
func Expect(p Probe, numeric bool, n float64, text, ctext string, ktext []string) bool {
	switch p.Kind {
	case "K":
		if numeric {
			return c05model.CompareFloat(n, p.Op, K[p.Arg])
		}
		return c05model.CompareString(text, p.Op, ktext[p.Arg])
	case "D":
		if numeric {
			return c05model.CompareFloat(n, p.Op, n)
		}
		return c05model.CompareString(text, p.Op, ctext)
	case "S":
		return c05model.CompareString(text, p.Op, S[p.Arg])
	case "U":
		if numeric {
			return c05model.CompareFloat(n, p.Op, 0)
		}
		return c05model.CompareString(text, p.Op, "")
	default: // truth
		if numeric {
			return n != 0
		}
		return text != ""
	}
}

type mismatch struct {
	id        string
	want, got bool
	nanJump   bool
}

func describe(ms []mismatch, max int) string {
	var l []string
	for i, m := range ms {
		if i == max {
			l = append(l, fmt.Sprintf("... %d more", len(ms)-max))
			break
		}
		l = append(l, fmt.Sprintf("%s want %v got %v", m.id, b2i(m.want), b2i(m.got)))
	}
	return strings.Join(l, "; ")
}

func b2i(b bool) int {
	if b {
		return 1
	}
	return 0
}

func numClass(x float64) string {
	switch {
	case math.IsNaN(x):
		return "nan"
	case math.IsInf(x, 0):
		return "inf"
	case x == 0 && math.Signbit(x):
		return "negative-zero"
	case x == 0:
		return "zero"
	}
	a := math.Abs(x)
	if x == math.Trunc(x) {
		switch {
		case x >= -9223372036854775808.0 && x < 9223372036854775808.0:
			if a >= 9007199254740992 {
				return "integer-above-2^53"
			}
			if a >= 1e6 {
				return "integer-7+digits"
			}
			return "integer-small"
		default:
			return "integer-beyond-int64"
		}
	}
	switch {
	case a < 2.2250738585072014e-308:
		return "subnormal"
	case a < 1e-4:
		return "fraction-tiny"
	case a < 1e6:
		return "fraction"
	default:
		return "fraction-large"
	}
}

// fmtClass collapses a CONVFMT/OFMT to the feature that matters for triage.
func fmtClass(f string) string {
	i := strings.IndexByte(f, '%')
	if i < 0 {
		return "no-conversion"
	}
	spec := f[i:]
	j := 1
	for j < len(spec) && strings.IndexByte("#0- +", spec[j]) >= 0 {
		j++
	}
	flags := spec[1:j]
	k := j
	for k < len(spec) && (spec[k] >= '0' && spec[k] <= '9') {
		k++
	}
	hasPrec := k < len(spec) && spec[k] == '.'
	if hasPrec {
		k++
		for k < len(spec) && (spec[k] >= '0' && spec[k] <= '9') {
			k++
		}
	}
	verb := "?"
	if k < len(spec) {
		verb = spec[k : k+1]
	}
	c := "%" + verb
	if strings.Contains(flags, "#") {
		c += "-with-#"
	}
	if !hasPrec {
		c += "-no-precision"
	}
	return c
}

// checkNumText compares an observed number->string conversion with the model.
func (e *Env) checkNumText(res *Result, item int, what, kind, format string, x float64, got string) {
	alts, dc, err := e.Libc.NumText(format, x)
	if err != nil {
		res.RunErr = "libc oracle: " + err.Error()
		return
	}
	if dc {
		t := strings.ToLower(strings.TrimSpace(got))
		t = strings.TrimLeft(t, "+-")
		if t != "nan" && t != "inf" && t != "infinity" {
			res.Findings = append(res.Findings, Finding{Item: item, Kind: kind, Class: "nonfinite-not-spelled-inf-or-nan",
				Summary:  fmt.Sprintf("%s of %v under %q is %q", what, x, format, got),
				Expected: "some spelling of inf/nan", Observed: got})
		}
		return
	}
	for _, a := range alts {
		if a == got {
			return
		}
	}
	class := "numtext:" + fmtClass(format) + ":" + numClass(x)
	if fc := fmtClass(format); (fc == "%g-no-precision" || fc == "%G-no-precision") && got == fmt.Sprintf(format, x) {
		// exactly the known defect: Go's fmt gives the shortest round-trip digits for a %g
		// without precision where C's printf uses precision 6
		class = "numtext:%g-without-precision-formatted-by-go-fmt-shortest"
	}
	res.Findings = append(res.Findings, Finding{Item: item, Kind: kind, Class: class,
		Summary:  fmt.Sprintf("%s of %s (%s) under format %q is %q, the model (exact integer / libc printf) says %q", what, strconv.FormatFloat(x, 'g', 17, 64), numClass(x), format, got, strings.Join(alts, " or ")),
		Expected: strings.Join(alts, " or "), Observed: got})
}

// judge applies the consistency laws and the value model to one decoded battery.
func (e *Env) judge(cs *Case, p *Prov, item int, o Obs, res *Result) {
	conv, ofmt := cs.ConvFmt, cs.OFmt
	var num *Num
	if p.Class == ClassNumber {
		num = &cs.Nums[item]
		conv, ofmt = num.ConvFmt, num.OFmt
	}
	add := func(kind, class, summary, expected, observed string) {
		res.Findings = append(res.Findings, Finding{Item: item, Kind: kind, Class: class, Summary: summary, Expected: expected, Observed: observed})
	}
	t := o.Text
	rep := Report{Item: item, Text: t}
	defer func() { res.Reports = append(res.Reports, rep) }()

	// ---- arithmetic: every arithmetic use of V must see the same number ----
	ns := make([]float64, len(o.Arith))
	for i, s := range o.Arith {
		f, ok := ParseNum(s)
		if !ok {
			add("probe-output", "", fmt.Sprintf("arithmetic probe %q printed %q, not a number", fmt.Sprintf(ArithSrc[i], "V"), s), "a number", s)
			return
		}
		ns[i] = f
	}
	N := ns[0]
	rep.N = N
	rd := c05model.Read(t)
	rep.Classes = rd.Classes
	ubn := c05model.UnicodeBlankNumeric(t)
	for i := 1; i < len(ns); i++ {
		want := N
		if ArithNeg[i] {
			want = -N
		}
		if !SameNum(ns[i], want) {
			add("arithmetic-tie", "arith:"+ArithSrc[i], fmt.Sprintf("text %q: V+0 is %s but %s is %s", t, o.Arith[0], fmt.Sprintf(ArithSrc[i], "V"), o.Arith[i]),
				fmt.Sprint(want), o.Arith[i])
		}
	}

	// ---- consistency laws: all boolean probes explained by ONE mode ----
	ktext := e.kTexts(conv)
	var mm [2][]mismatch // 0 = string hypothesis, 1 = numeric hypothesis
	for i, pr := range Battery {
		bit := o.Bits[i] == '1'
		if o.Bits[i] != '0' && o.Bits[i] != '1' {
			add("probe-output", "", fmt.Sprintf("probe %s printed %q", pr.ID(), o.Bits[i]), "0 or 1", string(o.Bits[i]))
			return
		}
		if pr.Inv {
			bit = !bit
		}
		e.ProbeCover[pr.CoverKey(bit)] = struct{}{}
		for h := 0; h < 2; h++ {
			want := Expect(pr, h == 1, N, t, o.CText, ktext)
			if want != bit {
				mm[h] = append(mm[h], mismatch{id: pr.ID(), want: want, got: bit,
					nanJump: h == 1 && math.IsNaN(N) && pr.Inverted() && pr.Ordering() && bit})
			}
		}
	}
	e.Probes += int64(len(Battery))
	switch {
	case len(mm[0]) == 0 && len(mm[1]) == 0:
		rep.Modes = "ambiguous"
	case len(mm[1]) == 0:
		rep.Modes = "numeric"
	case len(mm[0]) == 0:
		rep.Modes = "string"
	default:
		rep.Modes = "none"
		best := 1
		if len(mm[0]) < len(mm[1]) {
			best = 0
		}
		class := "mixed:" + []string{"string", "numeric"}[best] + "-except:" + mm[best][0].id
		allNaN := len(mm[1]) > 0
		for _, m := range mm[1] {
			if !m.nanJump {
				allNaN = false
			}
		}
		switch {
		case allNaN:
			class = "nan:ordering-true-in-inverted-jump"
			rep.Modes = "numeric" // numeric apart from the known NaN jump defect: keep judging the rest
		case ubn:
			class = "unicode-blank"
		}
		add("law-one-mode", class,
			fmt.Sprintf("%s text %q (V+0 = %s): the probes are explained neither by a numeric comparison with that number nor by a string comparison; against numeric: %s | against string: %s",
				p.Name, t, o.Arith[0], describe(mm[1], 6), describe(mm[0], 6)),
			"all comparison/truth probes consistent with one mode", fmt.Sprintf("%d probes contradict numeric, %d contradict string", len(mm[1]), len(mm[0])))
	}

	// ---- text probes: print, length, subscript ----
	if p.Class != ClassNumber {
		if o.Raw != t {
			add("text-probe", "print-not-verbatim", fmt.Sprintf("print of text %q wrote %q", t, o.Raw), t, o.Raw)
		}
		if o.Key != t {
			add("text-probe", "subscript-not-verbatim", fmt.Sprintf("array subscript made from text %q is %q", t, o.Key), t, o.Key)
		}
	}
	if o.Len != strconv.Itoa(len(t)) {
		add("text-probe", "length", fmt.Sprintf("length(V) is %s, V \"\" has %d bytes", o.Len, len(t)), strconv.Itoa(len(t)), o.Len)
	}
	// the number V stands for, converted back to a string under CONVFMT
	e.checkNumText(res, item, "(V+0) \"\"", "number-to-string", conv, N, o.CText)

	// ---- value model ----
	switch p.Class {
	case ClassInput, ClassString:
		if p.Verbatim && item < len(cs.Values) && string(cs.Values[item]) != t {
			add("value-text", "", fmt.Sprintf("%s: delivered %q but the program sees %q", p.Name, cs.Values[item], t), string(cs.Values[item]), t)
		}
		want := rd.Mode
		if p.Class == ClassString {
			want = c05model.ModeString
		}
		rep.Model = want.String()
		if want != c05model.ModeDontCare && (rep.Modes == "numeric" || rep.Modes == "string") && rep.Modes != want.String() {
			class := "mode:" + p.Class + ":expected-" + want.String() + ":" + strings.Join(rd.Classes, "+")
			if ubn && p.Class == ClassInput {
				class = "unicode-blank"
			}
			add("model-mode", class, fmt.Sprintf("%s text %q compares in %s mode, the value model says %s (%s)", p.Name, t, rep.Modes, want, strings.Join(rd.Classes, "+")),
				want.String(), rep.Modes)
		}
		// Where the model is silent about \n \v \f \r before a complete number, the implementation
		// still has to have ONE notion of a blank: if arithmetic skips them (V+0 is the number), the
		// text looks numeric and compares numerically; if it does not (V+0 is 0), it is a string.
		if p.Class == ClassInput && want == c05model.ModeDontCare && rd.LeadDC && !rd.TrailDC && rd.Num != 0 && !math.IsInf(rd.Num, 0) &&
			(rep.Modes == "numeric" || rep.Modes == "string") {
			skips := SameNum(N, rd.Num)
			if skips != (rep.Modes == "numeric") && (skips || N == 0) {
				add("law-blank-notion", "blank:"+strings.Join(rd.Classes, "+"), fmt.Sprintf("%s text %q: arithmetic reads %s (leading control blanks %s) but comparisons are in %s mode",
					p.Name, t, o.Arith[0], map[bool]string{true: "skipped", false: "not skipped"}[skips], rep.Modes), "one notion of a blank", rep.Modes)
			}
		}
		if !rd.NumDC && !SameNum(N, rd.Num) {
			add("model-number", "number:"+strings.Join(rd.Classes, "+"), fmt.Sprintf("%s text %q stands for %s in arithmetic, its longest numeric prefix is %s",
				p.Name, t, o.Arith[0], strconv.FormatFloat(rd.Num, 'g', 17, 64)), strconv.FormatFloat(rd.Num, 'g', 17, 64), o.Arith[0])
		}
	case ClassUnset:
		rep.Model = "numeric"
		if t != "" || N != 0 {
			add("model-unset", "value", fmt.Sprintf("%s: unset value has text %q and number %s", p.Name, t, o.Arith[0]), `"" and 0`, t+" / "+o.Arith[0])
		}
		if rep.Modes == "string" {
			add("model-mode", "mode:unset-compared-as-string", p.Name+": an unset value is compared as a string", "numeric", rep.Modes)
		}
	case ClassNumber:
		rep.Model = "numeric"
		x := math.Float64frombits(num.Bits)
		rep.NumCls = numClass(x)
		rep.Fmt = conv + "|" + ofmt
		if !SameNum(N, x) {
			add("number-arrival", "arrival:"+numClass(x), fmt.Sprintf("%s %q should be the number %s but V+0 prints %s", p.Name, num.Src, strconv.FormatFloat(x, 'g', 17, 64), o.Arith[0]),
				strconv.FormatFloat(x, 'g', 17, 64), o.Arith[0])
			return
		}
		if rep.Modes == "string" {
			add("model-mode", "mode:number-compared-as-string", fmt.Sprintf("%s %q: a number is compared as a string", p.Name, num.Src), "numeric", rep.Modes)
		}
		e.checkNumText(res, item, "V \"\" (CONVFMT)", "number-to-string", conv, x, t)
		e.checkNumText(res, item, "print V (OFMT)", "print-ofmt", ofmt, x, o.Raw)
		e.checkNumText(res, item, "subscript A[V] (CONVFMT)", "subscript-convfmt", conv, x, o.Key)
	default:
		rep.Model = "n/a"
	}
}

// judgePair applies the laws and the model to one decoded pair battery.
func (e *Env) judgePair(cs *Case, p *Prov, item int, o PairObs, res *Result) {
	add := func(kind, class, summary, expected, observed string) {
		res.Findings = append(res.Findings, Finding{Item: item, Kind: kind, Class: class, Summary: summary, Expected: expected, Observed: observed})
	}
	rep := Report{Item: item, Text: o.TextA + "\x00" + o.TextB}
	defer func() { res.Reports = append(res.Reports, rep) }()
	na, ok1 := ParseNum(o.NumA)
	nb, ok2 := ParseNum(o.NumB)
	if !ok1 || !ok2 {
		add("probe-output", "", fmt.Sprintf("pair arithmetic printed %q, %q", o.NumA, o.NumB), "numbers", "")
		return
	}
	bits := make([]bool, len(PairBattery))
	val := map[string]bool{} // E-form outcomes by "A<B" style key
	var mm [2][]mismatch
	for i, pr := range PairBattery {
		if o.Bits[i] != '0' && o.Bits[i] != '1' {
			add("probe-output", "", "pair bit string has a character other than 0/1", "", o.Bits)
			return
		}
		bits[i] = o.Bits[i] == '1'
		e.ProbeCover["P|"+pr.Op+"|"+pr.Form+"|"+string(o.Bits[i])] = struct{}{}
		if pr.Form == "E" {
			val[strings.SplitN(pr.ID(), "/", 2)[0]] = bits[i]
		}
		l, r, tl, tr := na, nb, o.TextA, o.TextB
		if pr.Swapped {
			l, r, tl, tr = nb, na, o.TextB, o.TextA
		}
		for h := 0; h < 2; h++ {
			var want bool
			if h == 1 {
				want = c05model.CompareFloat(l, pr.Op, r)
			} else {
				want = c05model.CompareString(tl, pr.Op, tr)
			}
			if want != bits[i] {
				mm[h] = append(mm[h], mismatch{id: pr.ID(), want: want, got: bits[i],
					nanJump: h == 1 && (math.IsNaN(na) || math.IsNaN(nb)) && pr.Inverted() && pr.Ordering() && bits[i]})
			}
		}
	}
	e.Probes += int64(len(PairBattery))
	ubn := c05model.UnicodeBlankNumeric(o.TextA) || c05model.UnicodeBlankNumeric(o.TextB)
	switch {
	case len(mm[0]) == 0 && len(mm[1]) == 0:
		rep.Modes = "ambiguous"
	case len(mm[1]) == 0:
		rep.Modes = "numeric"
	case len(mm[0]) == 0:
		rep.Modes = "string"
	default:
		rep.Modes = "none"
		// name the algebraic law that fails, if one does (the property lists them)
		nan := math.IsNaN(na) || math.IsNaN(nb)
		law := ""
		cnt := b2i(val["A<B"]) + b2i(val["A==B"]) + b2i(val["A>B"])
		switch {
		case !nan && cnt != 1:
			law = fmt.Sprintf("trichotomy: %d of A<B, A==B, A>B hold", cnt)
		case val["A<B"] != val["B>A"] || val["A>B"] != val["B<A"]:
			law = "a<b iff b>a"
		case !nan && val["A<=B"] == val["A>B"]:
			law = "a<=b iff !(a>b)"
		case !nan && val["A>=B"] == val["A<B"]:
			law = "a>=b iff !(a<b)"
		case val["A==B"] == val["A!=B"]:
			law = "a==b iff !(a!=b)"
		}
		best := 1
		if len(mm[0]) < len(mm[1]) {
			best = 0
		}
		class := "mixed:" + []string{"string", "numeric"}[best] + "-except:" + mm[best][0].id
		if law != "" {
			class = "law:" + law
		}
		allNaN := true
		for _, m := range mm[1] {
			if !m.nanJump {
				allNaN = false
			}
		}
		switch {
		case allNaN:
			class = "nan:ordering-true-in-inverted-jump"
			rep.Modes = "numeric"
		case ubn:
			class = "unicode-blank"
		}
		add("law-one-mode", class, fmt.Sprintf("%s A=%q (%s) B=%q (%s): %s; against numeric: %s | against string: %s", p.Name, o.TextA, o.NumA, o.TextB, o.NumB,
			firstNonEmpty(law, "outcomes explained by neither mode"), describe(mm[1], 6), describe(mm[0], 6)), "one mode explains all 48 probes", o.Bits)
	}
	// ---- model: numeric iff both operands are numeric ----
	cl := PairClasses[p.Name]
	modeOf := func(class, text string) c05model.Mode {
		switch class {
		case ClassNumber:
			return c05model.ModeNumeric
		case ClassString:
			return c05model.ModeString
		}
		return c05model.Read(text).Mode
	}
	ma, mb := modeOf(cl[0], o.TextA), modeOf(cl[1], o.TextB)
	want := c05model.ModeNumeric
	switch {
	case ma == c05model.ModeString || mb == c05model.ModeString:
		want = c05model.ModeString
	case ma == c05model.ModeDontCare || mb == c05model.ModeDontCare:
		want = c05model.ModeDontCare
	}
	rep.Model = want.String()
	rep.PairKey = cl[0] + "|" + cl[1] + "|" + want.String() + "|" + rep.Modes
	if want != c05model.ModeDontCare && (rep.Modes == "numeric" || rep.Modes == "string") && rep.Modes != want.String() {
		class := "pair-mode:" + cl[0] + "-" + cl[1] + ":expected-" + want.String()
		if ubn {
			class = "unicode-blank"
		}
		add("model-mode", class, fmt.Sprintf("%s A=%q (%s, %s) B=%q (%s, %s) compare in %s mode, the value model says %s", p.Name, o.TextA, cl[0], ma, o.TextB, cl[1], mb, rep.Modes, want),
			want.String(), rep.Modes)
	}
	// delivered text (input / string operands keep the bytes)
	if 2*item+1 < len(cs.Values) {
		for k, tx := range []string{o.TextA, o.TextB} {
			if cl[k] != ClassNumber && string(cs.Values[2*item+k]) != tx {
				add("value-text", "", fmt.Sprintf("%s: delivered %q but the program sees %q", p.Name, cs.Values[2*item+k], tx), string(cs.Values[2*item+k]), tx)
			}
		}
	}
}

func firstNonEmpty(a, b string) string {
	if a != "" {
		return a
	}
	return b
}

// SortedCover returns the probe outcomes seen so far.
func (e *Env) SortedCover() []string {
	l := make([]string, 0, len(e.ProbeCover))
	for k := range e.ProbeCover {
		l = append(l, k)
	}
	sort.Strings(l)
	return l
}
