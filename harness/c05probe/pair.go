package c05probe

import (
	"fmt"
	"strings"

	"github.com/benhoyt/goawk/interp"
)

// The pair battery compares two operands A and B, both arriving as data, with all six
// operators in both orientations and in four forms (expression, if, do-while, ?:).

// PairProbe is one boolean probe of the pair battery.
type PairProbe struct {
	Swapped bool   // B op A instead of A op B
	Op      string // operator as written
	Form    string // E I D T
}

func (p PairProbe) ID() string {
	if p.Swapped {
		return "B" + p.Op + "A/" + p.Form
	}
	return "A" + p.Op + "B/" + p.Form
}

func (p PairProbe) Inverted() bool { return p.Form == "I" || p.Form == "T" }
func (p PairProbe) Ordering() bool { return p.Op != "==" && p.Op != "!=" }

var PairBattery = buildPairBattery()

func buildPairBattery() []PairProbe {
	var l []PairProbe
	for _, sw := range []bool{false, true} {
		for _, op := range Ops {
			for _, f := range []string{"E", "I", "D", "T"} {
				l = append(l, PairProbe{Swapped: sw, Op: op, Form: f})
			}
		}
	}
	return l
}

// PairCode returns the AWK statements of the pair battery for operand expressions a and b.
func PairCode(a, b string) string {
	A, B := "("+a+")", "("+b+")"
	var sb strings.Builder
	w := func(format string, x ...any) { fmt.Fprintf(&sb, format+"\n", x...) }
	w(`o(%s "")`, A)
	w(`o(%s "")`, B)
	w(`o(sprintf("%%.17g", %s+0))`, A)
	w(`o(sprintf("%%.17g", %s+0))`, B)
	for _, p := range PairBattery {
		l, r := A, B
		if p.Swapped {
			l, r = B, A
		}
		cond := l + " " + p.Op + " " + r
		switch p.Form {
		case "E":
			w(`print (%s)`, cond)
		case "I":
			w(`if (%s) print "1"; else print "0"`, cond)
		case "D":
			w("_j = 0\ndo { if (++_j == 2) break } while (%s)\nprint (_j - 1)", cond)
		case "T":
			w(`print (%s ? "1" : "0")`, cond)
		}
	}
	w(`print ";"`)
	return sb.String()
}

// PairObs is the decoded output of one pair battery.
type PairObs struct {
	TextA, TextB string
	NumA, NumB   string
	Bits         string
}

func (d *decoder) DecodePair() (o PairObs, err error) {
	for _, dst := range []*string{&o.TextA, &o.TextB, &o.NumA, &o.NumB} {
		if *dst, err = d.item(); err != nil {
			return
		}
	}
	o.Bits, err = d.bits(len(PairBattery))
	return
}

// PairClasses gives the provenance class of each operand of a pair provenance.
var PairClasses = map[string][2]string{}

func pairRecords(values [][]byte) []byte {
	var b []byte
	for i := 0; i+1 < len(values); i += 2 {
		b = append(b, 'x', FS)
		b = append(b, values[i]...)
		b = append(b, FS)
		b = append(b, values[i+1]...)
		b = append(b, RS)
	}
	return b
}

func pairProv(name, classA, classB, setup, a, b string) *Prov {
	PairClasses[name] = [2]string{classA, classB}
	return &Prov{Name: name, Class: "pair", Pair: true, Accepts: noSep,
		build: func(cs *Case, e *Env) (string, *interp.Config, error) {
			return prelude(cs.ConvFmt, cs.OFmt) + mainRule(setup+PairCode(a, b)), stdinCfg(pairRecords(cs.Values)), nil
		}}
}

func pairProvs() []*Prov {
	l := []*Prov{
		pairProv("pair-fields", ClassInput, ClassInput, "", "$2", "$3"),
		pairProv("pair-var-split", ClassInput, ClassInput, "_x = $2\nsplit($0, _S)\n", "_x", "_S[3]"),
		pairProv("pair-number-input", ClassNumber, ClassInput, "", "$2+0", "$3"),
		pairProv("pair-input-number", ClassInput, ClassNumber, "", "$2", "$3+0"),
		pairProv("pair-string-input", ClassString, ClassInput, "", `$2 ""`, "$3"),
		pairProv("pair-input-string", ClassInput, ClassString, "", "$2", `$3 ""`),
		pairProv("pair-string-string", ClassString, ClassString, "", `$2 ""`, `$3 ""`),
		pairProv("pair-number-string", ClassNumber, ClassString, "", "$2+0", `$3 ""`),
		pairProv("pair-number-number", ClassNumber, ClassNumber, "", "$2+0", "-(-$3)"),
	}
	// one cross-provenance pair: a getline variable against an ENVIRON entry
	PairClasses["pair-getline-environ"] = [2]string{ClassInput, ClassInput}
	l = append(l, &Prov{Name: "pair-getline-environ", Class: "pair", Pair: true, Accepts: noSep,
		build: func(cs *Case, e *Env) (string, *interp.Config, error) {
			var as [][]byte
			cfg := stdinCfg(nil)
			for i := 0; i+1 < len(cs.Values); i += 2 {
				as = append(as, cs.Values[i])
				cfg.Environ = append(cfg.Environ, fmt.Sprintf("k%d", i/2+1), string(cs.Values[i+1]))
			}
			cfg.Stdin = strings.NewReader(string(records(as, false)))
			return prelude(cs.ConvFmt, cs.OFmt) + beginRule("while ((getline _x) > 0) {\n_i++\n"+PairCode("_x", `ENVIRON["k" _i]`)+"}\n"), cfg, nil
		}})
	return l
}

// PairProvNames lists the pair provenances in a fixed order.
var PairProvNames = []string{"pair-fields", "pair-var-split", "pair-number-input", "pair-input-number", "pair-string-input",
	"pair-input-string", "pair-string-string", "pair-number-string", "pair-number-number", "pair-getline-environ"}
