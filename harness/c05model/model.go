// Package c05model is the AWK value model used by property C05, written from the property
// text (not from interp/value.go):
//
//   - string -> number: longest leading prefix [blanks][+-](digits[.digits]|.digits)[e[+-]digits],
//     else 0; the decimal text is converted exactly (math/big rational, correctly rounded),
//     so the model does not share strconv.ParseFloat with goawk;
//   - "looks numeric": the whole string is blanks + such a number + blanks;
//   - number -> string: integral and -2^63 <= x < 2^63 -> exact decimal integer, anything else
//     through CONVFMT/OFMT applied by the real libc printf (c/printf_oracle.c).
//
// Where the property is silent the model answers "don't care" instead of guessing:
// hex / inf / nan spellings, magnitudes that overflow float64, and the control characters
// \n \v \f \r in the blank positions around a number.
package c05model

import (
	"math"
	"math/big"
	"strconv"
	"strings"
	"unicode"
	"unicode/utf8"
)

// Mode is the comparison mode the model assigns to a piece of input-derived text.
type Mode int

const (
	ModeString Mode = iota
	ModeNumeric
	ModeDontCare
)

func (m Mode) String() string {
	switch m {
	case ModeString:
		return "string"
	case ModeNumeric:
		return "numeric"
	}
	return "dont-care"
}

// Reading is what the model says about one string.
type Reading struct {
	LeadDC, TrailDC bool // \n \v \f \r among the blanks before / after a complete number
	Mode    Mode     // comparison mode if the string is input-derived
	Num     float64  // the number the string stands for in arithmetic (longest prefix, else 0)
	NumDC   bool     // the reading of the number is a don't-care
	Classes []string // spelling classes (coverage only)
}

func isBlank(c byte) bool   { return c == ' ' || c == '\t' }
func isDCBlank(c byte) bool { return c == '\n' || c == '\v' || c == '\f' || c == '\r' }
func isDigit(c byte) bool   { return c >= '0' && c <= '9' }

// scanDecimal finds the longest decimal numeric prefix of s (no blanks): returns its length
// (0 if none) and the pieces needed to evaluate it.
func scanDecimal(s string) (n int, neg bool, digits string, fracLen int, exp int64, expHuge bool) {
	i := 0
	if i < len(s) && (s[i] == '+' || s[i] == '-') {
		neg = s[i] == '-'
		i++
	}
	st := i
	for i < len(s) && isDigit(s[i]) {
		i++
	}
	intPart := s[st:i]
	frac := ""
	if i < len(s) && s[i] == '.' {
		j := i + 1
		for j < len(s) && isDigit(s[j]) {
			j++
		}
		frac = s[i+1 : j]
		if intPart != "" || frac != "" {
			i = j // "5." and ".5" are numbers, "." alone is not
		}
	}
	if intPart == "" && frac == "" {
		return 0, false, "", 0, 0, false
	}
	digits = intPart + frac
	fracLen = len(frac)
	// exponent: only if at least one digit follows
	if i < len(s) && (s[i] == 'e' || s[i] == 'E') {
		j := i + 1
		eneg := false
		if j < len(s) && (s[j] == '+' || s[j] == '-') {
			eneg = s[j] == '-'
			j++
		}
		k := j
		for k < len(s) && isDigit(s[k]) {
			k++
		}
		if k > j {
			es := strings.TrimLeft(s[j:k], "0")
			if len(es) > 6 {
				expHuge = true
				exp = 1 << 40
			} else if es != "" {
				exp, _ = strconv.ParseInt(es, 10, 64)
			}
			if eneg {
				exp = -exp
			}
			i = k
		}
	}
	return i, neg, digits, fracLen, exp, expHuge
}

// evalDecimal converts digits * 10^(exp-fracLen) to the nearest float64 (ties to even) with
// exact rational arithmetic. overflow reports a magnitude beyond the float64 range.
func evalDecimal(neg bool, digits string, fracLen int, exp int64) (f float64, overflow bool) {
	d := strings.TrimLeft(digits, "0")
	if d == "" {
		if neg {
			return math.Copysign(0, -1), false
		}
		return 0, false
	}
	// decimal exponent of the value = e10 with value = 0.d * 10^(len(d)+e)
	e := exp - int64(fracLen)
	mag := int64(len(d)) + e // value in [10^(mag-1), 10^mag)
	switch {
	case mag > 310:
		f, overflow = math.Inf(1), true
	case mag < -330:
		f = 0
	default:
		m := new(big.Int)
		m.SetString(d, 10)
		r := new(big.Rat).SetInt(m)
		p := new(big.Int).Exp(big.NewInt(10), big.NewInt(abs64(e)), nil)
		if e >= 0 {
			r.Mul(r, new(big.Rat).SetInt(p))
		} else {
			r.Quo(r, new(big.Rat).SetInt(p))
		}
		f, _ = r.Float64()
		if math.IsInf(f, 0) {
			overflow = true
		}
	}
	if neg {
		f = -f
	}
	return f, overflow
}

func abs64(x int64) int64 {
	if x < 0 {
		return -x
	}
	return x
}

func hasFoldPrefix(s, p string) bool {
	return len(s) >= len(p) && strings.EqualFold(s[:len(p)], p)
}

// Read applies the model to s.
func Read(s string) Reading {
	var r Reading
	add := func(c string) { r.Classes = append(r.Classes, c) }
	if s == "" {
		add("empty")
		return r
	}
	// leading blanks
	i := 0
	leadDC := false
	for i < len(s) && (isBlank(s[i]) || isDCBlank(s[i])) {
		if isDCBlank(s[i]) {
			leadDC = true
		}
		i++
	}
	if i > 0 {
		add("lead-blank")
	}
	if i == len(s) {
		add("blank-only")
		return r // no number: string, 0
	}
	body := s[i:]
	// don't-care spellings directly after the optional sign
	j := 0
	if body[0] == '+' || body[0] == '-' {
		j = 1
		add("sign")
	}
	switch {
	case hasFoldPrefix(body[j:], "inf"):
		add("inf")
		r.Mode, r.NumDC = ModeDontCare, true
		return r
	case hasFoldPrefix(body[j:], "nan"):
		add("nan")
		r.Mode, r.NumDC = ModeDontCare, true
		return r
	case hasFoldPrefix(body[j:], "0x"):
		add("hex")
		r.Mode, r.NumDC = ModeDontCare, true
		return r
	}
	n, neg, digits, fracLen, exp, _ := scanDecimal(body)
	if n == 0 {
		add("no-number")
		if unicodeBlankAround(s) {
			add("unicode-blank")
		}
		return r // string, 0
	}
	f, overflow := evalDecimal(neg, digits, fracLen, exp)
	r.Num = f
	if fracLen > 0 || strings.Contains(body[:n], ".") {
		add("fraction")
	} else {
		add("integer")
	}
	if strings.ContainsAny(body[:n], "eE") {
		add("exponent")
	}
	if f != 0 && math.Abs(f) < 2.2250738585072014e-308 {
		add("subnormal")
	}
	if f == 0 && strings.Trim(digits, "0") != "" {
		add("underflow")
	}
	rest := body[n:]
	restBlank, restDC := true, false
	for k := 0; k < len(rest); k++ {
		switch {
		case isBlank(rest[k]):
		case isDCBlank(rest[k]):
			restDC = true
		default:
			restBlank = false
		}
	}
	if rest != "" && restBlank {
		add("trail-blank")
	}
	switch {
	case !restBlank:
		r.Mode = ModeString
		add("number+garbage")
		if unicodeBlankAround(s) {
			add("unicode-blank")
		}
	case restDC || leadDC:
		r.Mode = ModeDontCare
		add("dc-blank")
	default:
		r.Mode = ModeNumeric
	}
	r.LeadDC, r.TrailDC = leadDC, restDC
	if leadDC {
		r.NumDC = true // an implementation that does not skip \n \v \f \r reads 0
	}
	if overflow {
		add("overflow")
		r.NumDC = true
		if r.Mode == ModeNumeric {
			r.Mode = ModeDontCare
		}
	}
	return r
}

// unicodeBlankAround reports a non-ASCII Unicode space next to the ends of s (after ASCII
// blanks are removed): the shape of the known goawk defect (strings.TrimSpace in parseFloat).
func unicodeBlankAround(s string) bool {
	t := strings.TrimFunc(s, func(r rune) bool { return r < 0x80 && unicode.IsSpace(r) })
	if t == "" {
		return false
	}
	first, _ := utf8.DecodeRuneInString(t)
	last, _ := utf8.DecodeLastRuneInString(t)
	return (first >= 0x80 && first != utf8.RuneError && unicode.IsSpace(first)) ||
		(last >= 0x80 && last != utf8.RuneError && unicode.IsSpace(last))
}

// UnicodeBlankNumeric reports that s, once Unicode spaces (ASCII and non-ASCII) are trimmed
// from both ends, is a complete number although s itself is not (a non-ASCII blank had to be
// removed): exactly the inputs on which goawk's two string->number routines disagree.
func UnicodeBlankNumeric(s string) bool {
	if !unicodeBlankAround(s) {
		return false
	}
	t := strings.TrimSpace(s)
	if t == "" || t == s {
		return false
	}
	rd := Read(t)
	return rd.Mode == ModeNumeric || rd.Mode == ModeDontCare
}

// IntegerText returns the exact decimal text of x if x is integral and inside the signed
// 64-bit range.
func IntegerText(x float64) (string, bool) {
	if math.IsNaN(x) || math.IsInf(x, 0) || x != math.Trunc(x) {
		return "", false
	}
	if x < -9223372036854775808.0 || x >= 9223372036854775808.0 {
		return "", false
	}
	bi, _ := new(big.Float).SetFloat64(x).Int(nil)
	return bi.String(), true
}

// CompareFloat evaluates "a op b" the IEEE way.
func CompareFloat(a float64, op string, b float64) bool {
	switch op {
	case "<":
		return a < b
	case "<=":
		return a <= b
	case "==":
		return a == b
	case "!=":
		return a != b
	case ">":
		return a > b
	case ">=":
		return a >= b
	}
	panic("bad op " + op)
}

// CompareString evaluates "a op b" bytewise.
func CompareString(a, op, b string) bool {
	switch op {
	case "<":
		return a < b
	case "<=":
		return a <= b
	case "==":
		return a == b
	case "!=":
		return a != b
	case ">":
		return a > b
	case ">=":
		return a >= b
	}
	panic("bad op " + op)
}
