package c05model

import (
	"bufio"
	"encoding/binary"
	"fmt"
	"io"
	"math"
	"os/exec"
	"strconv"
	"strings"
)

// Libc talks to .build/printf_oracle (c/printf_oracle.c): C's own snprintf applied to a double.
type Libc struct {
	cmd   *exec.Cmd
	in    io.WriteCloser
	out   *bufio.Reader
	cache map[string]string
	Calls int
	// HashGBug counts conversions where glibc's own %#g answer was replaced by the one derived
	// from %e/%f (see hashG).
	HashGBug int
}

func StartLibc(path string) (*Libc, error) {
	cmd := exec.Command(path)
	in, err := cmd.StdinPipe()
	if err != nil {
		return nil, err
	}
	out, err := cmd.StdoutPipe()
	if err != nil {
		return nil, err
	}
	if err := cmd.Start(); err != nil {
		return nil, err
	}
	return &Libc{cmd: cmd, in: in, out: bufio.NewReader(out), cache: map[string]string{}}, nil
}

func (l *Libc) Close() {
	if l == nil {
		return
	}
	_ = l.in.Close()
	_ = l.cmd.Wait()
}

// Double returns snprintf(format, x) as libc computes it.
func (l *Libc) Double(format string, x float64) (string, error) {
	key := fmt.Sprintf("%s\x00%x", format, math.Float64bits(x))
	if s, ok := l.cache[key]; ok {
		return s, nil
	}
	var req []byte
	req = binary.LittleEndian.AppendUint32(req, uint32(len(format)))
	req = append(req, format...)
	req = append(req, 0) // no '*' arguments
	req = append(req, 'd')
	req = binary.LittleEndian.AppendUint64(req, math.Float64bits(x))
	if _, err := l.in.Write(req); err != nil {
		return "", err
	}
	var nb [4]byte
	if _, err := io.ReadFull(l.out, nb[:]); err != nil {
		return "", err
	}
	n := int32(binary.LittleEndian.Uint32(nb[:]))
	if n < 0 || n >= 16384 {
		return "", fmt.Errorf("printf oracle returned %d for %q", n, format)
	}
	buf := make([]byte, n)
	if _, err := io.ReadFull(l.out, buf); err != nil {
		return "", err
	}
	l.Calls++
	if len(l.cache) < 400000 {
		l.cache[key] = string(buf)
	}
	return string(buf), nil
}

// NumText is the model's number -> string conversion under format (CONVFMT or OFMT).
// It returns the acceptable texts; dontCare is set for non-finite values (the spelling of
// inf/nan is outside the property).
func (l *Libc) NumText(format string, x float64) (alts []string, dontCare bool, err error) {
	if math.IsNaN(x) || math.IsInf(x, 0) {
		return nil, true, nil
	}
	if s, ok := IntegerText(x); ok {
		if x == 0 && math.Signbit(x) {
			return []string{"0", "-0"}, false, nil // "exact integer" of negative zero: either
		}
		return []string{s}, false, nil
	}
	s, err := l.Double(format, x)
	if err != nil {
		return nil, false, err
	}
	if d, ok, err := l.hashG(format, x); err != nil {
		return nil, false, err
	} else if ok && d != s {
		l.HashGBug++
		s = d
	}
	return []string{s}, false, nil
}

// hashG works around a glibc defect (seen with 2.36): with the '#' flag, "%#.3g" of 999.5
// prints "1.e+03" instead of "1.00e+03" when rounding carries into a new power of ten.  For a
// %g/%G conversion carrying '#', the expected text is derived the way the C standard defines
// %g, from libc's own (correct) %e and %f: let X be the exponent of the %.{P-1}e conversion; if
// P > X >= -4 the result is %#.{P-1-X}f, else %#.{P-1}e.
func (l *Libc) hashG(format string, x float64) (string, bool, error) {
	i := strings.IndexByte(format, '%')
	if i < 0 {
		return "", false, nil
	}
	j := i + 1
	for j < len(format) && strings.IndexByte("#0- +", format[j]) >= 0 {
		j++
	}
	flags := format[i+1 : j]
	k := j
	for k < len(format) && format[k] >= '0' && format[k] <= '9' {
		k++
	}
	width := format[j:k]
	prec := 6
	if k < len(format) && format[k] == '.' {
		m := k + 1
		for m < len(format) && format[m] >= '0' && format[m] <= '9' {
			m++
		}
		prec, _ = strconv.Atoi(format[k+1 : m])
		k = m
	}
	if k >= len(format) || (format[k] != 'g' && format[k] != 'G') || !strings.Contains(flags, "#") {
		return "", false, nil
	}
	if prec == 0 {
		prec = 1
	}
	e, f := "e", "f"
	if format[k] == 'G' {
		e, f = "E", "F"
	}
	et, err := l.Double(fmt.Sprintf("%%.%de", prec-1), math.Abs(x))
	if err != nil {
		return "", false, err
	}
	ei := strings.IndexByte(et, 'e')
	if ei < 0 {
		return "", false, nil
	}
	X, err := strconv.Atoi(et[ei+1:])
	if err != nil {
		return "", false, nil
	}
	spec := fmt.Sprintf("%%%s%s.%d%s", flags, width, prec-1, e)
	if prec > X && X >= -4 {
		spec = fmt.Sprintf("%%%s%s.%d%s", flags, width, prec-1-X, f)
	}
	s, err := l.Double(format[:i]+spec+format[k+1:], x)
	return s, true, err
}
