// Package diffrun runs one generated case through goawk's VM (real files in the batch work
// directory, fake shell for commands) and through the reference evaluator, and compares the
// observable outcomes: stdout bytes, files written, exit status, error/no-error.
package diffrun

import (
	"fmt"
	"os"
	"path/filepath"
	"sort"
	"strings"

	"github.com/benhoyt/goawk/interp"
	"github.com/benhoyt/goawk/parser"

	"verifharness/core"
	"verifharness/refeval"
	"verifharness/run"
)

// Case is the environment of one run (file names are relative to the work directory).
type Case struct {
	Stdin    string            `json:"stdin"`
	Files    map[string]string `json:"files,omitempty"` // input files
	OutFiles []string          `json:"out_files,omitempty"`
	Args     []string          `json:"args,omitempty"`
	Vars     []string          `json:"vars,omitempty"`
	Shell    bool              `json:"shell,omitempty"` // commands allowed (vsh)
	Fuel     int               `json:"fuel,omitempty"`  // reference evaluator's budget (0 = its default)
}

// Outcome is the comparable result of one run.
type Outcome struct {
	Kind   string // "ok" | "error" | "PANIC" | "STEPLIMIT"
	Status int
	Stdout string
	Files  map[string]string
	Detail string // error text / panic site (not compared)
	Faults []string
	Hist   map[interp.VerifOpKey]uint64
	Steps  uint64
	Stderr string
	// TimingArtefact: goawk gives a command 250 ms (exec.Cmd.WaitDelay) to finish its I/O after
	// it exits; on an overloaded machine that expires and the run reports -1 / loses output. Such
	// a run is not judged (a wall-clock effect, not a semantic one).
	TimingArtefact bool
}

func (o Outcome) Sig() string {
	var names []string
	for n := range o.Files {
		names = append(names, n)
	}
	sort.Strings(names)
	var sb strings.Builder
	fmt.Fprintf(&sb, "%s status=%d stdout=%q", o.Kind, o.Status, o.Stdout)
	for _, n := range names {
		fmt.Fprintf(&sb, " file[%s]=%q", n, o.Files[n])
	}
	return sb.String()
}

// Prepare makes dir the current directory of the process (once per batch).
func Prepare(dir string) error { return os.Chdir(dir) }

func resetFiles(cs *Case) error {
	for _, n := range cs.OutFiles {
		_ = os.Remove(n)
	}
	for n, content := range cs.Files {
		if err := os.WriteFile(n, []byte(content), 0o644); err != nil {
			return err
		}
	}
	return nil
}

// VM runs prog on goawk's virtual machine in the current directory.
func VM(prog *parser.Program, cs *Case, hist bool) (Outcome, error) {
	if err := resetFiles(cs); err != nil {
		return Outcome{}, err
	}
	cfg := &interp.Config{
		Stdin: strings.NewReader(cs.Stdin), Args: cs.Args, Vars: cs.Vars, Argv0: "awk",
		NoExec: !cs.Shell, ShellCommand: []string{filepath.Join(core.BuildDir, "vsh")},
	}
	o := run.Exec(prog, cfg, run.Opts{Hist: hist, FileOutput: cs.Shell})
	out := Outcome{Kind: "ok", Status: o.Status, Stdout: o.Stdout, Files: map[string]string{}, Faults: o.Faults, Hist: o.Hist, Steps: o.Steps, Stderr: o.Stderr}
	out.TimingArtefact = strings.Contains(o.Stderr, "WaitDelay expired")
	switch {
	case o.Panic != "":
		out.Kind, out.Detail = "PANIC", o.Panic
	case o.StepLimit:
		out.Kind = "STEPLIMIT"
	case o.Err != "":
		out.Kind, out.Detail = "error", o.Err
		out.Status = 0
	}
	for _, n := range cs.OutFiles {
		if b, err := os.ReadFile(n); err == nil {
			out.Files[n] = string(b)
		}
	}
	return out, nil
}

// Ref runs prog on the reference evaluator. ok=false means the case left the modelled fragment.
func Ref(prog *parser.Program, cs *Case, bumpNR bool) (out Outcome, ok bool, usedPipe bool, res refeval.Result) {
	return RefVariant(prog, cs, bumpNR, false)
}

// RefVariant is Ref with the second ambiguity switch (sign of int()'s zero) exposed.
func RefVariant(prog *parser.Program, cs *Case, bumpNR, intDropsNegZero bool) (out Outcome, ok bool, usedPipe bool, res refeval.Result) {
	files := map[string][]byte{}
	for n, c := range cs.Files {
		files[n] = []byte(c)
	}
	cfg := &refeval.Config{Stdin: []byte(cs.Stdin), Args: cs.Args, Vars: cs.Vars, Argv0: "awk", Files: files, PipeGetlineBumpsNR: bumpNR, Fuel: cs.Fuel, IntDropsNegZero: intDropsNegZero}
	if cs.Shell {
		cfg.Shell = refeval.VshModel
	}
	res = refeval.Run(prog, cfg)
	if refeval.IsUnsupported(res.Err) {
		return Outcome{Detail: res.Err.Error()}, false, res.UsedPipeGetline, res
	}
	out = Outcome{Kind: "ok", Status: res.Status, Stdout: string(res.Stdout), Files: map[string]string{}}
	if res.Err != nil {
		out.Kind, out.Detail, out.Status = "error", res.Err.Error(), 0
	}
	for _, n := range cs.OutFiles {
		if b, exists := res.Files[n]; exists {
			out.Files[n] = string(b)
		}
	}
	return out, true, res.UsedPipeGetline, res
}

// Agree compares a VM outcome with the reference, trying the other setting of the
// cmd|getline-bumps-NR ambiguity switch when the program used that form.
func Agree(prog *parser.Program, cs *Case, vm Outcome) (agree bool, ref Outcome, supported bool) {
	ref, ok, usedPipe, _ := Ref(prog, cs, false)
	if !ok {
		return true, ref, false
	}
	if ref.Sig() == vm.Sig() {
		return true, ref, true
	}
	for _, v := range [][2]bool{{true, false}, {false, true}, {true, true}} {
		if v[0] && !usedPipe {
			continue
		}
		ref2, ok2, _, _ := RefVariant(prog, cs, v[0], v[1])
		if ok2 && ref2.Sig() == vm.Sig() {
			return true, ref2, true
		}
	}
	return false, ref, true
}
