// Package astx walks and canonically dumps goawk syntax trees (through the verifhook bridge).
package astx

import (
	"fmt"
	"strconv"
	"strings"

	"github.com/benhoyt/goawk/lexer"
	"github.com/benhoyt/goawk/parser"
	vh "github.com/benhoyt/goawk/verifhook"
)

// Tree returns the syntax tree of a parsed program.
func Tree(p *parser.Program) *vh.ASTProgram { return &p.ResolvedProgram.Program }

type DumpOpts struct {
	SkipGrouping bool                 // ignore GroupingExpr nodes
	Num          func(float64) string // number rendering (default: exact %v)
	NilEmptyElse bool                 // treat nil and empty statement lists alike (always true for else)
}

type dumper struct {
	sb strings.Builder
	o  DumpOpts
}

// DumpProgram renders the whole tree canonically (no positions).
func DumpProgram(p *vh.ASTProgram, o DumpOpts) string {
	d := &dumper{o: o}
	for _, ss := range p.Begin {
		d.sb.WriteString("(BEGIN ")
		d.stmts(ss)
		d.sb.WriteString(")\n")
	}
	for _, a := range p.Actions {
		d.sb.WriteString("(ACTION [")
		for i, e := range a.Pattern {
			if i > 0 {
				d.sb.WriteString(", ")
			}
			d.expr(e)
		}
		d.sb.WriteString("] ")
		if a.Stmts == nil {
			d.sb.WriteString("<noaction>")
		} else {
			d.stmts(a.Stmts)
		}
		d.sb.WriteString(")\n")
	}
	for _, ss := range p.End {
		d.sb.WriteString("(END ")
		d.stmts(ss)
		d.sb.WriteString(")\n")
	}
	for _, f := range p.Functions {
		fmt.Fprintf(&d.sb, "(FUNC %s(%s) ", f.Name, strings.Join(f.Params, ","))
		d.stmts(f.Body)
		d.sb.WriteString(")\n")
	}
	return d.sb.String()
}

// DumpExpr renders one expression canonically.
func DumpExpr(e vh.Expr, o DumpOpts) string {
	d := &dumper{o: o}
	d.expr(e)
	return d.sb.String()
}

// DumpStmts renders a statement list canonically.
func DumpStmts(ss []vh.Stmt, o DumpOpts) string {
	d := &dumper{o: o}
	d.stmts(ss)
	return d.sb.String()
}

func (d *dumper) num(f float64) string {
	if d.o.Num != nil {
		return d.o.Num(f)
	}
	return strconv.FormatFloat(f, 'g', -1, 64)
}

func (d *dumper) stmts(ss []vh.Stmt) {
	d.sb.WriteString("{")
	for i, s := range ss {
		if i > 0 {
			d.sb.WriteString("; ")
		}
		d.stmt(s)
	}
	d.sb.WriteString("}")
}

func (d *dumper) exprs(es []vh.Expr) {
	for i, e := range es {
		if i > 0 {
			d.sb.WriteString(", ")
		}
		d.expr(e)
	}
}

func (d *dumper) stmt(s vh.Stmt) {
	w := &d.sb
	switch s := s.(type) {
	case *vh.PrintStmt:
		w.WriteString("(print [")
		d.exprs(s.Args)
		w.WriteString("]")
		if s.Dest != nil {
			fmt.Fprintf(w, " %s ", s.Redirect)
			d.expr(s.Dest)
		}
		w.WriteString(")")
	case *vh.PrintfStmt:
		w.WriteString("(printf [")
		d.exprs(s.Args)
		w.WriteString("]")
		if s.Dest != nil {
			fmt.Fprintf(w, " %s ", s.Redirect)
			d.expr(s.Dest)
		}
		w.WriteString(")")
	case *vh.ExprStmt:
		w.WriteString("(expr ")
		d.expr(s.Expr)
		w.WriteString(")")
	case *vh.IfStmt:
		w.WriteString("(if ")
		d.expr(s.Cond)
		w.WriteString(" ")
		d.stmts(s.Body)
		if len(s.Else) > 0 {
			w.WriteString(" else ")
			d.stmts(s.Else)
		}
		w.WriteString(")")
	case *vh.ForStmt:
		w.WriteString("(for ")
		if s.Pre != nil {
			d.stmt(s.Pre)
		} else {
			w.WriteString("-")
		}
		w.WriteString("; ")
		if s.Cond != nil {
			d.expr(s.Cond)
		} else {
			w.WriteString("-")
		}
		w.WriteString("; ")
		if s.Post != nil {
			d.stmt(s.Post)
		} else {
			w.WriteString("-")
		}
		w.WriteString(" ")
		d.stmts(s.Body)
		w.WriteString(")")
	case *vh.ForInStmt:
		fmt.Fprintf(w, "(forin %s %s ", s.Var, s.Array)
		d.stmts(s.Body)
		w.WriteString(")")
	case *vh.WhileStmt:
		w.WriteString("(while ")
		d.expr(s.Cond)
		w.WriteString(" ")
		d.stmts(s.Body)
		w.WriteString(")")
	case *vh.DoWhileStmt:
		w.WriteString("(do ")
		d.stmts(s.Body)
		w.WriteString(" ")
		d.expr(s.Cond)
		w.WriteString(")")
	case *vh.BreakStmt:
		w.WriteString("(break)")
	case *vh.ContinueStmt:
		w.WriteString("(continue)")
	case *vh.NextStmt:
		w.WriteString("(next)")
	case *vh.NextfileStmt:
		w.WriteString("(nextfile)")
	case *vh.ExitStmt:
		w.WriteString("(exit")
		if s.Status != nil {
			w.WriteString(" ")
			d.expr(s.Status)
		}
		w.WriteString(")")
	case *vh.DeleteStmt:
		fmt.Fprintf(w, "(delete %s [", s.Array)
		d.exprs(s.Index)
		w.WriteString("])")
	case *vh.ReturnStmt:
		w.WriteString("(return")
		if s.Value != nil {
			w.WriteString(" ")
			d.expr(s.Value)
		}
		w.WriteString(")")
	case *vh.BlockStmt:
		w.WriteString("(block ")
		d.stmts(s.Body)
		w.WriteString(")")
	case nil:
		w.WriteString("<nil-stmt>")
	default:
		fmt.Fprintf(w, "<unknown-stmt %T>", s)
	}
}

func (d *dumper) expr(e vh.Expr) {
	w := &d.sb
	switch e := e.(type) {
	case *vh.FieldExpr:
		w.WriteString("($ ")
		d.expr(e.Index)
		w.WriteString(")")
	case *vh.NamedFieldExpr:
		w.WriteString("(@ ")
		d.expr(e.Field)
		w.WriteString(")")
	case *vh.UnaryExpr:
		fmt.Fprintf(w, "(u%s ", e.Op)
		d.expr(e.Value)
		w.WriteString(")")
	case *vh.BinaryExpr:
		if e.Op == lexer.CONCAT {
			w.WriteString("(cat ")
		} else {
			fmt.Fprintf(w, "(%s ", e.Op)
		}
		d.expr(e.Left)
		w.WriteString(" ")
		d.expr(e.Right)
		w.WriteString(")")
	case *vh.InExpr:
		w.WriteString("(in [")
		d.exprs(e.Index)
		fmt.Fprintf(w, "] %s)", e.Array)
	case *vh.CondExpr:
		w.WriteString("(?: ")
		d.expr(e.Cond)
		w.WriteString(" ")
		d.expr(e.True)
		w.WriteString(" ")
		d.expr(e.False)
		w.WriteString(")")
	case *vh.NumExpr:
		fmt.Fprintf(w, "(num %s)", d.num(e.Value))
	case *vh.StrExpr:
		if e.Regex {
			fmt.Fprintf(w, "(restr %q)", e.Value)
		} else {
			fmt.Fprintf(w, "(str %q)", e.Value)
		}
	case *vh.RegExpr:
		fmt.Fprintf(w, "(regex %q)", e.Regex)
	case *vh.VarExpr:
		fmt.Fprintf(w, "(var %s)", e.Name)
	case *vh.IndexExpr:
		fmt.Fprintf(w, "(index %s [", e.Array)
		d.exprs(e.Index)
		w.WriteString("])")
	case *vh.AssignExpr:
		w.WriteString("(= ")
		d.expr(e.Left)
		w.WriteString(" ")
		d.expr(e.Right)
		w.WriteString(")")
	case *vh.AugAssignExpr:
		fmt.Fprintf(w, "(%s= ", e.Op)
		d.expr(e.Left)
		w.WriteString(" ")
		d.expr(e.Right)
		w.WriteString(")")
	case *vh.IncrExpr:
		if e.Pre {
			fmt.Fprintf(w, "(pre%s ", e.Op)
		} else {
			fmt.Fprintf(w, "(post%s ", e.Op)
		}
		d.expr(e.Expr)
		w.WriteString(")")
	case *vh.CallExpr:
		fmt.Fprintf(w, "(call %s [", e.Func)
		d.exprs(e.Args)
		w.WriteString("])")
	case *vh.UserCallExpr:
		fmt.Fprintf(w, "(ucall %s [", e.Name)
		d.exprs(e.Args)
		w.WriteString("])")
	case *vh.MultiExpr:
		w.WriteString("(multi [")
		d.exprs(e.Exprs)
		w.WriteString("])")
	case *vh.GetlineExpr:
		w.WriteString("(getline")
		if e.Command != nil {
			w.WriteString(" cmd=")
			d.expr(e.Command)
		}
		if e.Target != nil {
			w.WriteString(" target=")
			d.expr(e.Target)
		}
		if e.File != nil {
			w.WriteString(" file=")
			d.expr(e.File)
		}
		w.WriteString(")")
	case *vh.GroupingExpr:
		if d.o.SkipGrouping {
			d.expr(e.Expr)
		} else {
			w.WriteString("(group ")
			d.expr(e.Expr)
			w.WriteString(")")
		}
	case nil:
		w.WriteString("<nil-expr>")
	default:
		fmt.Fprintf(w, "<unknown-expr %T>", e)
	}
}

// Visitor callbacks; any may be nil.
type Visitor struct {
	Expr func(e vh.Expr)
	Stmt func(s vh.Stmt)
}

func (v Visitor) Program(p *vh.ASTProgram) {
	for _, ss := range p.Begin {
		v.Stmts(ss)
	}
	for _, a := range p.Actions {
		for _, e := range a.Pattern {
			v.ExprTree(e)
		}
		v.Stmts(a.Stmts)
	}
	for _, ss := range p.End {
		v.Stmts(ss)
	}
	for _, f := range p.Functions {
		v.Stmts(f.Body)
	}
}

func (v Visitor) Stmts(ss []vh.Stmt) {
	for _, s := range ss {
		v.StmtTree(s)
	}
}

func (v Visitor) exprs(es []vh.Expr) {
	for _, e := range es {
		v.ExprTree(e)
	}
}

func (v Visitor) StmtTree(s vh.Stmt) {
	if s == nil {
		return
	}
	if v.Stmt != nil {
		v.Stmt(s)
	}
	switch s := s.(type) {
	case *vh.PrintStmt:
		v.exprs(s.Args)
		v.ExprTree(s.Dest)
	case *vh.PrintfStmt:
		v.exprs(s.Args)
		v.ExprTree(s.Dest)
	case *vh.ExprStmt:
		v.ExprTree(s.Expr)
	case *vh.IfStmt:
		v.ExprTree(s.Cond)
		v.Stmts(s.Body)
		v.Stmts(s.Else)
	case *vh.ForStmt:
		if s.Pre != nil {
			v.StmtTree(s.Pre)
		}
		v.ExprTree(s.Cond)
		if s.Post != nil {
			v.StmtTree(s.Post)
		}
		v.Stmts(s.Body)
	case *vh.ForInStmt:
		v.Stmts(s.Body)
	case *vh.WhileStmt:
		v.ExprTree(s.Cond)
		v.Stmts(s.Body)
	case *vh.DoWhileStmt:
		v.Stmts(s.Body)
		v.ExprTree(s.Cond)
	case *vh.ExitStmt:
		v.ExprTree(s.Status)
	case *vh.DeleteStmt:
		v.exprs(s.Index)
	case *vh.ReturnStmt:
		v.ExprTree(s.Value)
	case *vh.BlockStmt:
		v.Stmts(s.Body)
	}
}

func isNilExpr(e vh.Expr) bool {
	if e == nil {
		return true
	}
	switch x := e.(type) {
	case *vh.FieldExpr:
		return x == nil
	case *vh.VarExpr:
		return x == nil
	case *vh.IndexExpr:
		return x == nil
	}
	return false
}

func (v Visitor) ExprTree(e vh.Expr) {
	if isNilExpr(e) {
		return
	}
	if v.Expr != nil {
		v.Expr(e)
	}
	switch e := e.(type) {
	case *vh.FieldExpr:
		v.ExprTree(e.Index)
	case *vh.NamedFieldExpr:
		v.ExprTree(e.Field)
	case *vh.UnaryExpr:
		v.ExprTree(e.Value)
	case *vh.BinaryExpr:
		v.ExprTree(e.Left)
		v.ExprTree(e.Right)
	case *vh.InExpr:
		v.exprs(e.Index)
	case *vh.CondExpr:
		v.ExprTree(e.Cond)
		v.ExprTree(e.True)
		v.ExprTree(e.False)
	case *vh.IndexExpr:
		v.exprs(e.Index)
	case *vh.AssignExpr:
		v.ExprTree(e.Left)
		v.ExprTree(e.Right)
	case *vh.AugAssignExpr:
		v.ExprTree(e.Left)
		v.ExprTree(e.Right)
	case *vh.IncrExpr:
		v.ExprTree(e.Expr)
	case *vh.CallExpr:
		v.exprs(e.Args)
	case *vh.UserCallExpr:
		v.exprs(e.Args)
	case *vh.MultiExpr:
		v.exprs(e.Exprs)
	case *vh.GetlineExpr:
		v.ExprTree(e.Command)
		v.ExprTree(e.Target)
		v.ExprTree(e.File)
	case *vh.GroupingExpr:
		v.ExprTree(e.Expr)
	}
}
