package c17native

import (
	"context"
	"errors"
	"fmt"
	"io"
	"math"
	"os"
	"reflect"
	"strconv"
	"strings"
)

// ---- AWK argument pool ------------------------------------------------------------------------

// Arg is one AWK-side argument value. Exactly one of Expr / Input is used to make it:
// Expr is AWK source of a pure expression ("%U" stands for a variable that is never assigned);
// Input is a text that reaches the program as a field of the input record or through
// Config.Vars, i.e. with "numeric string" provenance.
type Arg struct {
	ID    string
	Class string // coverage class: int, neg, frac, huge, nan, inf, str-num, str-nonnum, strnum, strnum-nonnum, unset
	Expr  string
	Input string
	IsIn  bool
	Model Awk
}

// numArg is a number written as a decimal literal that reads back as exactly n (a negative
// number is the negation of a literal, as in any AWK source).
func numArg(id, class string, n float64) Arg {
	lit := func(x float64) string {
		if x != 0 && (x < 1e-5 || x >= 1e21) {
			return strconv.FormatFloat(x, 'g', -1, 64) // 1e-300, 1e+30
		}
		return strconv.FormatFloat(x, 'f', -1, 64)
	}
	expr := lit(n)
	if n < 0 {
		expr = "(-" + lit(-n) + ")"
	}
	return Arg{ID: id, Class: class, Expr: expr, Model: Awk{N: n}}
}

func exprArg(id, class, expr string, n float64) Arg {
	return Arg{ID: id, Class: class, Expr: expr, Model: Awk{N: n}}
}

func strArg(id, class, s string) Arg {
	return Arg{ID: id, Class: class, Expr: AwkQuote(s), Model: Awk{IsStr: true, S: s}}
}

func inArg(id, class, s string) Arg {
	return Arg{ID: id, Class: class, Input: s, IsIn: true, Model: Awk{IsStr: true, Strnum: true, S: s}}
}

// AwkQuote writes s as an AWK string literal (octal escapes for everything unusual, so the
// literal is plain ASCII and means the same bytes to any lexer).
func AwkQuote(s string) string {
	var b strings.Builder
	b.WriteByte('"')
	for i := 0; i < len(s); i++ {
		c := s[i]
		switch {
		case c == '"' || c == '\\':
			b.WriteByte('\\')
			b.WriteByte(c)
		case c >= 0x20 && c < 0x7f:
			b.WriteByte(c)
		default:
			fmt.Fprintf(&b, "\\%03o", c)
		}
	}
	b.WriteByte('"')
	return b.String()
}

var p2 = func(e int) float64 { return math.Ldexp(1, e) }

// Args is the argument pool (order is part of the case lists; append only).
var Args = buildArgs()

var argIndex = map[string]int{}

func buildArgs() []Arg {
	l := []Arg{
		// integers around every integer kind's limits
		numArg("0", "int", 0), numArg("1", "int", 1), numArg("2", "int", 2), numArg("42", "int", 42),
		numArg("127", "int", 127), numArg("128", "int", 128), numArg("255", "int", 255), numArg("256", "int", 256),
		numArg("32767", "int", 32767), numArg("32768", "int", 32768), numArg("65535", "int", 65535), numArg("65536", "int", 65536),
		numArg("2^31-1", "int", p2(31)-1), numArg("2^31", "int", p2(31)), numArg("2^32-1", "int", p2(32)-1), numArg("2^32", "int", p2(32)),
		numArg("2^24+1", "int", 16777217), numArg("2^53", "huge", p2(53)), numArg("2^53+2", "huge", p2(53)+2), numArg("2^62", "huge", p2(62)),
		numArg("2^63-1024", "huge", p2(63)-1024), numArg("2^63", "huge", p2(63)), numArg("2^63+2048", "huge", p2(63)+2048),
		numArg("2^64-2048", "huge", p2(64)-2048), numArg("2^64", "huge", p2(64)), numArg("1e30", "huge", 1e30), numArg("1e300", "huge", 1e300),
		numArg("3.4e38", "huge", 3.4e38), numArg("3.5e38", "huge", 3.5e38),
		// negative
		numArg("-1", "neg", -1), numArg("-2", "neg", -2), numArg("-128", "neg", -128), numArg("-129", "neg", -129),
		numArg("-32768", "neg", -32768), numArg("-32769", "neg", -32769), numArg("-2^31", "neg", -p2(31)), numArg("-2^31-1", "neg", -p2(31)-1),
		numArg("-2^53", "neg", -p2(53)), numArg("-2^63", "neg", -p2(63)), numArg("-2^63-2048", "neg", -p2(63)-2048), numArg("-1e30", "neg", -1e30),
		numArg("-0.5", "neg", -0.5), numArg("-1.5", "neg", -1.5), numArg("-2.999999", "neg", -2.999999), numArg("-128.9", "neg", -128.9),
		numArg("-255.5", "neg", -255.5),
		// fractional (truncation, not rounding)
		numArg("0.5", "frac", 0.5), numArg("1.5", "frac", 1.5), numArg("2.999999", "frac", 2.999999), numArg("0.1", "frac", 0.1),
		numArg("pi", "frac", 3.14159265358979), numArg("127.9", "frac", 127.9), numArg("255.9", "frac", 255.9), numArg("65535.9", "frac", 65535.9),
		numArg("2^31-0.5", "frac", p2(31)-0.5), numArg("2^32-0.5", "frac", p2(32)-0.5), numArg("1e-300", "frac", 1e-300),
		numArg("123456789.125", "frac", 123456789.125), exprArg("1/3", "frac", "(1/3)", 1.0/3),
		exprArg("2^0.5", "frac", "(2^0.5)", math.Pow(2, 0.5)),
		// not-a-number and infinities (made by arithmetic, no literal exists)
		exprArg("nan", "nan", "log(-1)", math.NaN()), exprArg("-nan", "nan", "(-log(-1))", math.NaN()),
		exprArg("inf", "inf", "(-log(0))", math.Inf(1)), exprArg("-inf", "inf", "log(0)", math.Inf(-1)),
		exprArg("ovf", "inf", "(1e300*1e300)", math.Inf(1)),
		// string constants that look like numbers (strings all the same: true when non-empty)
		strArg("s:0", "str-num", "0"), strArg("s:1", "str-num", "1"), strArg("s:12", "str-num", "12"), strArg("s:-7", "str-num", "-7"),
		strArg("s:3.7sp", "str-num", " 3.7 "), strArg("s:1e3", "str-num", "1e3"), strArg("s:.5", "str-num", ".5"), strArg("s:+7", "str-num", "+7"),
		strArg("s:0.0", "str-num", "0.0"), strArg("s:300", "str-num", "300"), strArg("s:-129", "str-num", "-129"),
		strArg("s:2^63", "str-num", "9223372036854775808"), strArg("s:0x1A", "str-num", "0x1A"), strArg("s:inf", "str-num", "inf"),
		strArg("s:nan", "str-num", "nan"), strArg("s:1e400", "str-num", "1e400"),
		// other strings
		strArg("s:empty", "str-nonnum", ""), strArg("s:abc", "str-nonnum", "abc"), strArg("s:12abc", "str-nonnum", "12abc"),
		strArg("s:-4.9x", "str-nonnum", "-4.9x"), strArg("s:sp", "str-nonnum", " "), strArg("s:utf8", "str-nonnum", "héllo 日本"),
		strArg("s:badutf8", "str-nonnum", "a\xff\xfeb"), strArg("s:esc", "str-nonnum", "q\"b\\s/"), strArg("s:nl", "str-nonnum", "two\nlines"),
		strArg("s:ctl", "str-nonnum", "\x01\x7f\t"), strArg("s:long", "str-nonnum", strings.Repeat("0123456789abcdef", 40)),
		strArg("s:1e", "str-nonnum", "1e"), strArg("s:.", "str-nonnum", "."), strArg("s:+", "str-nonnum", "+"),
		// concatenations and builtin results are strings
		{ID: "cat:12", Class: "str-num", Expr: `(1 "" 2)`, Model: Awk{IsStr: true, S: "12"}},
		{ID: "substr:0", Class: "str-num", Expr: `substr("x0y", 2, 1)`, Model: Awk{IsStr: true, S: "0"}},
		// input provenance: numeric strings
		inArg("in:42", "strnum", "42"), inArg("in:17sp", "strnum", " 17 "), inArg("in:3.9", "strnum", "3.9"), inArg("in:-2.5", "strnum", "-2.5"),
		inArg("in:0", "strnum", "0"), inArg("in:0.0", "strnum", "0.0"), inArg("in:+0", "strnum", "+0"), inArg("in:-0sp", "strnum", " 0 "),
		inArg("in:1e2", "strnum", "1e2"), inArg("in:.5", "strnum", ".5"), inArg("in:300", "strnum", "300"), inArg("in:-1", "strnum", "-1"),
		inArg("in:2^64", "strnum", "18446744073709551616"), inArg("in:2^63+2048", "strnum", "9223372036854777856"),
		inArg("in:0x10", "strnum", "0x10"), inArg("in:1e400", "strnum", "1e400"), inArg("in:nan", "strnum", "nan"), inArg("in:00012", "strnum", "00012"),
		// input provenance: not numeric
		inArg("in:abc", "strnum-nonnum", "abc"), inArg("in:empty", "strnum-nonnum", ""), inArg("in:12abc", "strnum-nonnum", "12abc"),
		inArg("in:0x", "strnum-nonnum", "0x"), inArg("in:utf8", "strnum-nonnum", "été"), inArg("in:bad", "strnum-nonnum", "\xc3(\xff"),
		inArg("in:dot", "strnum-nonnum", "."), inArg("in:1e", "strnum-nonnum", "1e"), inArg("in:nbsp", "strnum-nonnum", "\u00a05"),
		// never assigned
		{ID: "unset:var", Class: "unset", Expr: "%U", Model: Awk{Unset: true}},
		{ID: "unset:elem", Class: "unset", Expr: `UA["nokey"]`, Model: Awk{Unset: true}},
		{ID: "unset:field", Class: "unset", Expr: `$99`, Model: Awk{Unset: true}},
	}
	for i, a := range l {
		if _, dup := argIndex[a.ID]; dup {
			panic("duplicate arg id " + a.ID)
		}
		argIndex[a.ID] = i
	}
	return l
}

// ArgByID finds a pool entry.
func ArgByID(id string) (Arg, bool) {
	i, ok := argIndex[id]
	if !ok {
		return Arg{}, false
	}
	return Args[i], true
}

// ---- Go result pool ---------------------------------------------------------------------------

// Ret is one Go result value and the AWK value the documented rule turns it into.
type Ret struct {
	ID  string
	Go  reflect.Value
	Awk Awk
}

var stringRets = []struct{ id, s string }{
	{"empty", ""}, {"abc", "abc"}, {"12", "12"}, {"sp3sp", " 3 "}, {"1e3", "1e3"}, {"0.10", "0.10"}, {"0", "0"},
	{"utf8", "grüß 日"}, {"badutf8", "\xff\xc0x"}, {"nl", "a\nb\n"}, {"nul", "a\x00b"},
	{"long", strings.Repeat("xy", 3000)}, {"0x1A", "0x1A"}, {"pi", "3.14159265358979"}, {"-7.5e1x", "-7.5e1x"},
}

// Rets returns the result pool of a kind (fixed order).
func Rets(kind string) []Ret {
	typ := TypeOf(kind)
	b := Base(kind)
	mk := func(id string, x interface{}, a Awk) Ret {
		return Ret{ID: id, Go: reflect.ValueOf(x).Convert(typ), Awk: a}
	}
	var l []Ret
	switch b {
	case "bool":
		l = append(l, mk("true", true, Awk{N: 1}), mk("false", false, Awk{N: 0}))
	case "float64":
		for _, f := range []float64{math.Pi, 1e300, -2.5, 0, 0.1, p2(53), p2(63), 123456789012, 5e-324, 1e-7, math.NaN(), math.Inf(1), math.Inf(-1), 100000, 1234567.5} {
			l = append(l, mk(RenderFloat(f), f, Awk{N: f}))
		}
	case "float32":
		for _, f := range []float32{0.1, math.MaxFloat32, -1.5, 0, 16777216, 1e-45, float32(math.NaN()), float32(math.Inf(1)), 2.5e6} {
			l = append(l, mk(RenderFloat(float64(f)), f, Awk{N: float64(f)}))
		}
	case "string", "[]byte":
		for _, s := range stringRets {
			switch {
			case kind == "[]NByte":
				// []byte does not convert to []NByte; copy the bytes in
				v := reflect.MakeSlice(typ, len(s.s), len(s.s))
				reflect.Copy(v, reflect.ValueOf(s.s))
				l = append(l, Ret{ID: s.id, Go: v, Awk: Awk{IsStr: true, S: s.s}})
			case b == "string":
				l = append(l, mk(s.id, s.s, Awk{IsStr: true, S: s.s}))
			default:
				l = append(l, mk(s.id, []byte(s.s), Awk{IsStr: true, S: s.s}))
			}
		}
		if kind == "[]byte" {
			l = append(l, Ret{ID: "nil", Go: reflect.Zero(typ), Awk: Awk{IsStr: true, S: ""}})
		}
	default:
		bits, signed, ok := intBits(b)
		if !ok {
			panic("no result pool for kind " + kind)
		}
		if signed {
			min := int64(-1) << (bits - 1)
			max := -(min + 1)
			for _, x := range []int64{0, 1, -1, 42, min, max, min + 1, max - 1, -100} {
				l = append(l, Ret{ID: strconv.FormatInt(x, 10), Go: reflect.ValueOf(x).Convert(typ), Awk: Awk{N: float64(x)}})
			}
			if bits == 64 {
				x := int64(1)<<53 + 1
				l = append(l, Ret{ID: "2^53+1", Go: reflect.ValueOf(x).Convert(typ), Awk: Awk{N: float64(x)}})
			}
		} else {
			max := ^uint64(0) >> (64 - bits)
			for _, x := range []uint64{0, 1, 42, max, max - 1, max/2 + 1, 200} {
				l = append(l, Ret{ID: strconv.FormatUint(x, 10), Go: reflect.ValueOf(x).Convert(typ), Awk: Awk{N: float64(x)}})
			}
		}
	}
	return l
}

// RetByID finds a result value of a kind.
func RetByID(kind, id string) (Ret, bool) {
	for _, r := range Rets(kind) {
		if r.ID == id {
			return r, true
		}
	}
	return Ret{}, false
}

// ---- errors a function may return -------------------------------------------------------------

// PtrErr is compared by identity, ValErr by value.
type PtrErr struct{ Msg string }

func (e *PtrErr) Error() string { return e.Msg }

type ValErr struct{ Code int }

func (e ValErr) Error() string { return "valerr " + strconv.Itoa(e.Code) }

// ErrKinds lists the error values used (fixed order).
var ErrKinds = []string{"ptr", "val", "eof", "canceled", "deadline", "wrapped", "closed", "emptymsg"}

var errTable = map[string]error{
	"ptr":      &PtrErr{Msg: "boom from native function"},
	"val":      ValErr{Code: 7},
	"eof":      io.EOF, // the interpreter uses io.EOF internally to end reading
	"canceled": context.Canceled,
	"deadline": context.DeadlineExceeded,
	"wrapped":  fmt.Errorf("wrapped: %w", io.EOF),
	"closed":   os.ErrClosed,
	"emptymsg": errors.New(""),
}

// ErrByKind returns the error value of a kind (nil for "" or unknown).
func ErrByKind(k string) error { return errTable[k] }
