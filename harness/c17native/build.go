package c17native

import (
	"fmt"
	"reflect"
)

// FuncSpec describes one entry of Config.Funcs. For an ordinary function In/Out are kind
// names of this package ("error" is allowed as the last result). NonFunc, when set, makes
// the entry a value that is not a function at all.
type FuncSpec struct {
	Name     string   `json:"name"`
	In       []string `json:"in,omitempty"`
	Variadic bool     `json:"variadic,omitempty"` // the last In kind is the element kind of the tail
	Out      []string `json:"out,omitempty"`
	Ret      string   `json:"ret,omitempty"`     // result pool id for Out[0]
	ErrKind  string   `json:"errkind,omitempty"` // error returned on call number ErrAt (1-based)
	ErrAt    int      `json:"errat,omitempty"`
	NonFunc  string   `json:"nonfunc,omitempty"` // "int", "string", "nil", "struct", "ptrfunc", "slice"
}

// Sig is a compact spelling of the signature.
func (f FuncSpec) Sig() string {
	if f.NonFunc != "" {
		return "nonfunc:" + f.NonFunc
	}
	s := "func("
	for i, k := range f.In {
		if i > 0 {
			s += ","
		}
		if f.Variadic && i == len(f.In)-1 {
			s += "..."
		}
		s += k
	}
	s += ")"
	if len(f.Out) > 0 {
		s += "("
		for i, k := range f.Out {
			if i > 0 {
				s += ","
			}
			s += k
		}
		s += ")"
	}
	return s
}

// Call is what a recorder saw: the function's name and the rendering of every value it
// received (fixed parameters first; for a variadic function then "...<n>" and the n elements).
type Call struct {
	Fn   string
	Args []string
}

func (c Call) String() string { return fmt.Sprintf("%s%v", c.Fn, c.Args) }

// Recorder collects the calls of all functions of one case, in order.
type Recorder struct {
	Log    []Call
	counts map[string]int
}

// Build makes the Go value for one Funcs entry. Functions are made with reflect.FuncOf +
// reflect.MakeFunc, so any kind can stand in any position; each one logs what it received
// into rec and returns its scripted result.
func Build(spec FuncSpec, rec *Recorder) (interface{}, error) {
	switch spec.NonFunc {
	case "":
	case "int":
		return 5, nil
	case "string":
		return "not a function", nil
	case "nil":
		return nil, nil
	case "struct":
		return struct{ F func() }{}, nil
	case "ptrfunc":
		f := func() int { return 1 }
		return &f, nil
	case "slice":
		return []func(){}, nil
	default:
		return nil, fmt.Errorf("unknown non-function %q", spec.NonFunc)
	}
	in := make([]reflect.Type, len(spec.In))
	for i, k := range spec.In {
		t := TypeOf(k)
		if t == nil {
			return nil, fmt.Errorf("unknown kind %q", k)
		}
		if spec.Variadic && i == len(spec.In)-1 {
			t = reflect.SliceOf(t)
		}
		in[i] = t
	}
	out := make([]reflect.Type, len(spec.Out))
	for i, k := range spec.Out {
		t := TypeOf(k)
		if t == nil {
			return nil, fmt.Errorf("unknown kind %q", k)
		}
		out[i] = t
	}
	// scripted results
	results := make([]reflect.Value, len(out))
	for i, t := range out {
		results[i] = reflect.Zero(t)
	}
	if len(out) > 0 && spec.Ret != "" {
		r, ok := RetByID(spec.Out[0], spec.Ret)
		if !ok {
			return nil, fmt.Errorf("no result %q for kind %s", spec.Ret, spec.Out[0])
		}
		results[0] = r.Go
	}
	var errVal reflect.Value
	if spec.ErrKind != "" {
		e := ErrByKind(spec.ErrKind)
		if e == nil || len(out) != 2 || out[1] != errorType {
			return nil, fmt.Errorf("bad error spec %q for %s", spec.ErrKind, spec.Sig())
		}
		errVal = reflect.New(errorType).Elem()
		errVal.Set(reflect.ValueOf(e))
	}
	if rec.counts == nil {
		rec.counts = map[string]int{}
	}
	name, variadic, nIn := spec.Name, spec.Variadic, len(in)
	errAt := spec.ErrAt
	typ := reflect.FuncOf(in, out, variadic)
	fn := reflect.MakeFunc(typ, func(args []reflect.Value) []reflect.Value {
		c := Call{Fn: name}
		for i, a := range args {
			if variadic && i == nIn-1 {
				c.Args = append(c.Args, fmt.Sprintf("...%d", a.Len()))
				for j := 0; j < a.Len(); j++ {
					c.Args = append(c.Args, Render(a.Index(j)))
				}
				continue
			}
			c.Args = append(c.Args, Render(a))
		}
		rec.Log = append(rec.Log, c)
		rec.counts[name]++
		res := make([]reflect.Value, len(results))
		copy(res, results)
		if errVal.IsValid() && rec.counts[name] == errAt {
			res[1] = errVal
		}
		return res
	})
	return fn.Interface(), nil
}
