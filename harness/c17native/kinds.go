// Package c17native holds the pieces of the C17 monitor that do not depend on the check
// runner: the table of Go kinds a native function may use, recorder functions built with
// reflect.FuncOf/MakeFunc for any signature, the pools of AWK argument values and Go result
// values, and the documented conversion table re-stated independently of interp/functions.go.
package c17native

import (
	"fmt"
	"math"
	"reflect"
	"strconv"
	"unsafe"
)

// Kinds are the 15 documented parameter/result kinds, in a fixed order.
var Kinds = []string{
	"bool",
	"int", "int8", "int16", "int32", "int64",
	"uint", "uint8", "uint16", "uint32", "uint64",
	"float32", "float64",
	"string", "[]byte",
}

// Defined (named) types whose underlying type is a documented kind. goawk's setup check goes
// by reflect.Kind, so it accepts them; the documentation ("bool, integer and floating point
// types, and string types") does not exclude them either.
type (
	NBool    bool
	NInt     int
	NInt8    int8
	NUint16  uint16
	NUint64  uint64
	NFloat32 float32
	NFloat64 float64
	NString  string
	NBytes   []byte
	NByte    uint8
)

// NamedKinds lists the defined-type kinds (family "named").
var NamedKinds = []string{"NBool", "NInt", "NInt8", "NUint16", "NUint64", "NFloat32", "NFloat64", "NString", "NBytes", "[]NByte"}

// InvalidKinds are parameter/result types outside the documented set.
var InvalidKinds = []string{
	"map", "chan", "struct", "ptr", "[]int", "[]string", "[][]byte", "func", "iface",
	"complex64", "complex128", "uintptr", "array", "error", "unsafeptr",
}

var errorType = reflect.TypeOf((*error)(nil)).Elem()

var typeTable = map[string]reflect.Type{
	"bool":    reflect.TypeOf(false),
	"int":     reflect.TypeOf(int(0)),
	"int8":    reflect.TypeOf(int8(0)),
	"int16":   reflect.TypeOf(int16(0)),
	"int32":   reflect.TypeOf(int32(0)),
	"int64":   reflect.TypeOf(int64(0)),
	"uint":    reflect.TypeOf(uint(0)),
	"uint8":   reflect.TypeOf(uint8(0)),
	"uint16":  reflect.TypeOf(uint16(0)),
	"uint32":  reflect.TypeOf(uint32(0)),
	"uint64":  reflect.TypeOf(uint64(0)),
	"float32": reflect.TypeOf(float32(0)),
	"float64": reflect.TypeOf(float64(0)),
	"string":  reflect.TypeOf(""),
	"[]byte":  reflect.TypeOf([]byte(nil)),

	"NBool":    reflect.TypeOf(NBool(false)),
	"NInt":     reflect.TypeOf(NInt(0)),
	"NInt8":    reflect.TypeOf(NInt8(0)),
	"NUint16":  reflect.TypeOf(NUint16(0)),
	"NUint64":  reflect.TypeOf(NUint64(0)),
	"NFloat32": reflect.TypeOf(NFloat32(0)),
	"NFloat64": reflect.TypeOf(NFloat64(0)),
	"NString":  reflect.TypeOf(NString("")),
	"NBytes":   reflect.TypeOf(NBytes(nil)),
	"[]NByte":  reflect.TypeOf([]NByte(nil)),

	"map":        reflect.TypeOf(map[string]int(nil)),
	"chan":       reflect.TypeOf((chan int)(nil)),
	"struct":     reflect.TypeOf(struct{ A int }{}),
	"ptr":        reflect.TypeOf((*int)(nil)),
	"[]int":      reflect.TypeOf([]int(nil)),
	"[]string":   reflect.TypeOf([]string(nil)),
	"[][]byte":   reflect.TypeOf([][]byte(nil)),
	"func":       reflect.TypeOf((func())(nil)),
	"iface":      reflect.TypeOf((*interface{})(nil)).Elem(),
	"complex64":  reflect.TypeOf(complex64(0)),
	"complex128": reflect.TypeOf(complex128(0)),
	"uintptr":    reflect.TypeOf(uintptr(0)),
	"array":      reflect.TypeOf([4]byte{}),
	"error":      errorType,
	"unsafeptr":  reflect.TypeOf(unsafe.Pointer(nil)),
	// a concrete type that implements error but is not the interface type error
	"*errT": reflect.TypeOf((*PtrErr)(nil)),
}

var baseOf = map[string]string{
	"NBool": "bool", "NInt": "int", "NInt8": "int8", "NUint16": "uint16", "NUint64": "uint64",
	"NFloat32": "float32", "NFloat64": "float64", "NString": "string", "NBytes": "[]byte", "[]NByte": "[]byte",
}

// TypeOf returns the reflect.Type for a kind name of this package (nil if unknown).
func TypeOf(kind string) reflect.Type { return typeTable[kind] }

// Base maps a defined-type kind to the documented kind it is made of (identity otherwise).
func Base(kind string) string {
	if b, ok := baseOf[kind]; ok {
		return b
	}
	return kind
}

// IsNamed reports whether kind is one of the defined-type kinds.
func IsNamed(kind string) bool { _, ok := baseOf[kind]; return ok }

// IsDocumented reports whether kind is one of the 15 documented kinds.
func IsDocumented(kind string) bool {
	for _, k := range Kinds {
		if k == kind {
			return true
		}
	}
	return false
}

// IsStringKind reports whether the (base) kind is string or []byte.
func IsStringKind(kind string) bool {
	b := Base(kind)
	return b == "string" || b == "[]byte"
}

// intBits returns (bits, signed, ok) for integer kinds.
func intBits(kind string) (bits int, signed bool, ok bool) {
	switch Base(kind) {
	case "int":
		return strconv.IntSize, true, true
	case "int8":
		return 8, true, true
	case "int16":
		return 16, true, true
	case "int32":
		return 32, true, true
	case "int64":
		return 64, true, true
	case "uint":
		return strconv.IntSize, false, true
	case "uint8":
		return 8, false, true
	case "uint16":
		return 16, false, true
	case "uint32":
		return 32, false, true
	case "uint64":
		return 64, false, true
	}
	return 0, false, false
}

// ---- rendering of Go values (what a recorder received / what the table expects) -----------

// Render gives the canonical text of a Go value of a documented kind: kind-independent for
// the value itself, so that expected and received values compare as strings.
func Render(v reflect.Value) string {
	switch v.Kind() {
	case reflect.Bool:
		return strconv.FormatBool(v.Bool())
	case reflect.Int, reflect.Int8, reflect.Int16, reflect.Int32, reflect.Int64:
		return strconv.FormatInt(v.Int(), 10)
	case reflect.Uint, reflect.Uint8, reflect.Uint16, reflect.Uint32, reflect.Uint64:
		return strconv.FormatUint(v.Uint(), 10)
	case reflect.Float32, reflect.Float64:
		return RenderFloat(v.Float())
	case reflect.String:
		return strconv.Quote(v.String())
	case reflect.Slice:
		if v.Type().Elem().Kind() == reflect.Uint8 {
			return strconv.Quote(string(v.Bytes()))
		}
	}
	return fmt.Sprintf("?%s", v.Type())
}

// RenderFloat renders a float64 exactly (shortest round-trip form); every NaN is "NaN" and
// negative zero is "0" (AWK arithmetic does not keep the sign of zero apart).
func RenderFloat(f float64) string {
	if math.IsNaN(f) {
		return "NaN"
	}
	if f == 0 {
		return "0"
	}
	return strconv.FormatFloat(f, 'g', -1, 64)
}

// ZeroRender is the rendering of the zero value of a kind (missing arguments).
func ZeroRender(kind string) string {
	return Render(reflect.Zero(TypeOf(kind)))
}

// ---- the documented conversion table, AWK -> Go ----------------------------------------------

// Probe is what AWK itself says about an argument value: its string form under the current
// CONVFMT, its numeric value, its truth value.
type Probe struct {
	S string
	N float64
	T bool
}

// ExpectArg applies the documented rule for one parameter kind to an AWK value described by
// its probe. care=false marks a don't-care (the rule does not pin the result down):
// an integer kind whose range does not contain the truncated number (Go leaves out-of-range
// float->integer conversion to the platform), NaN to an integer kind, a float32 beyond its range.
func ExpectArg(kind string, p Probe) (want string, care bool, dontcare string) {
	b := Base(kind)
	switch b {
	case "bool":
		return strconv.FormatBool(p.T), true, ""
	case "float64":
		return RenderFloat(p.N), true, ""
	case "float32":
		if !math.IsNaN(p.N) && !math.IsInf(p.N, 0) && math.Abs(p.N) > math.MaxFloat32 {
			return "", false, "float32-overflow"
		}
		return RenderFloat(float64(float32(p.N))), true, ""
	case "string", "[]byte":
		return strconv.Quote(p.S), true, ""
	}
	bits, signed, ok := intBits(b)
	if !ok {
		return "", false, "unknown-kind"
	}
	if math.IsNaN(p.N) {
		return "", false, "nan-to-integer"
	}
	t := math.Trunc(p.N)
	if signed {
		lim := math.Ldexp(1, bits-1) // 2^(bits-1)
		if t < -lim || t >= lim {
			return "", false, "integer-out-of-range"
		}
		return strconv.FormatInt(int64(t), 10), true, ""
	}
	lim := math.Ldexp(1, bits) // 2^bits
	if t < 0 || t >= lim {
		return "", false, "integer-out-of-range"
	}
	if t < math.Ldexp(1, 63) {
		return strconv.FormatUint(uint64(int64(t)), 10), true, ""
	}
	return strconv.FormatUint(uint64(t), 10), true, "" // 2^63 <= t < 2^64: representable, well-defined
}

// ---- AWK values as the model sees them --------------------------------------------------------

// Awk is an AWK value in the harness model: a number, or a string (Strnum marks strings that
// came from input and look numeric: they are numbers in a boolean context).
type Awk struct {
	IsStr  bool
	Strnum bool
	Unset  bool
	N      float64
	S      string
}

// NumStr is the string form of a number: an integral value prints as an integer, anything
// else through CONVFMT. ok=false where the spelling is not pinned down for this property
// (NaN, infinities, integral values of magnitude >= 2^63: owned by C05/C09).
func NumStr(n float64, convfmt string) (string, bool) {
	if math.IsNaN(n) || math.IsInf(n, 0) {
		return "", false
	}
	if n == math.Trunc(n) {
		if math.Abs(n) >= math.Ldexp(1, 63) {
			return "", false
		}
		return strconv.FormatInt(int64(n), 10), true
	}
	return fmt.Sprintf(convfmt, n), true
}

// LooksNumeric reports whether s has the form of a decimal number with optional surrounding
// blanks (the POSIX "numeric string" shape). Hex, inf and nan spellings are reported as
// unknown (ok=false): implementations differ and C05 owns them.
func LooksNumeric(s string) (numeric bool, ok bool) {
	i, j := 0, len(s)
	for i < j && (s[i] == ' ' || s[i] == '\t' || s[i] == '\n') {
		i++
	}
	for j > i && (s[j-1] == ' ' || s[j-1] == '\t' || s[j-1] == '\n') {
		j--
	}
	t := s[i:j]
	if t == "" {
		return false, true
	}
	n, rest := scanDecimal(t)
	if n > 0 && rest == "" {
		return true, true
	}
	// Spellings some implementations take as numbers.
	u := t
	if u[0] == '+' || u[0] == '-' {
		u = u[1:]
	}
	if len(u) >= 2 && (u[:2] == "0x" || u[:2] == "0X") {
		return false, false
	}
	for _, w := range []string{"inf", "nan"} {
		if len(u) >= 3 && eqFold(u[:3], w) {
			return false, false
		}
	}
	return false, true
}

func eqFold(a, b string) bool {
	if len(a) != len(b) {
		return false
	}
	for i := 0; i < len(a); i++ {
		x, y := a[i], b[i]
		if x >= 'A' && x <= 'Z' {
			x += 'a' - 'A'
		}
		if x != y {
			return false
		}
	}
	return true
}

// scanDecimal returns the length of the longest decimal-float prefix of t and the rest.
func scanDecimal(t string) (int, string) {
	i := 0
	if i < len(t) && (t[i] == '+' || t[i] == '-') {
		i++
	}
	d := 0
	for i < len(t) && t[i] >= '0' && t[i] <= '9' {
		i++
		d++
	}
	if i < len(t) && t[i] == '.' {
		i++
		for i < len(t) && t[i] >= '0' && t[i] <= '9' {
			i++
			d++
		}
	}
	if d == 0 {
		return 0, t
	}
	if i < len(t) && (t[i] == 'e' || t[i] == 'E') {
		k := i + 1
		if k < len(t) && (t[k] == '+' || t[k] == '-') {
			k++
		}
		e := 0
		for k < len(t) && t[k] >= '0' && t[k] <= '9' {
			k++
			e++
		}
		if e > 0 {
			i = k
		}
	}
	return i, t[i:]
}

// PrefixNum is the numeric value of a string: the longest leading decimal number after
// blanks, 0 if there is none. ok=false for hex/inf/nan spellings (see LooksNumeric).
func PrefixNum(s string) (float64, bool) {
	i := 0
	for i < len(s) && (s[i] == ' ' || s[i] == '\t' || s[i] == '\n') {
		i++
	}
	t := s[i:]
	if _, ok := LooksNumeric(firstWord(t)); !ok {
		return 0, false
	}
	n, _ := scanDecimal(t)
	if n == 0 {
		return 0, true
	}
	f, err := strconv.ParseFloat(t[:n], 64)
	if err != nil && !math.IsInf(f, 0) {
		return 0, false
	}
	return f, true
}

func firstWord(t string) string {
	for i := 0; i < len(t); i++ {
		if t[i] == ' ' || t[i] == '\t' || t[i] == '\n' {
			return t[:i]
		}
	}
	return t
}

// ProbeOf gives the model's own view of an AWK value (string form, number, truth value)
// under CONVFMT. ok=false where the model does not pin one of the three down.
func ProbeOf(v Awk, convfmt string) (Probe, bool) {
	switch {
	case v.Unset:
		return Probe{S: "", N: 0, T: false}, true
	case !v.IsStr:
		s, ok := NumStr(v.N, convfmt)
		if math.IsNaN(v.N) {
			ok = false
		}
		return Probe{S: s, N: v.N, T: v.N != 0}, ok
	}
	n, okN := PrefixNum(v.S)
	t := v.S != ""
	ok := okN
	if v.Strnum {
		num, okL := LooksNumeric(v.S)
		if !okL {
			ok = false
		} else if num {
			t = n != 0
		}
	}
	return Probe{S: v.S, N: n, T: t}, ok
}
