// Package c10model holds the reference models of property C10, written from the property
// text: the unit (byte/character) decomposition of a string, substr/index/split/int
// equations, the replacement-string grammar of sub/gsub, and an independent
// leftmost-longest regular-expression matcher over a small syntax tree (regex.go).
//
// Nothing here calls into goawk. Go's regexp is used by the property file as the "direct
// evaluation" oracle; this package is the part that does not even share that library.
package c10model

import (
	"math"
	"strings"
)

// DecodeChar decodes one character of s at byte offset i, written from RFC 3629 (own table,
// not unicode/utf8): it returns the code point and the width of a well-formed UTF-8
// sequence (no overlong forms, no surrogates, nothing above U+10FFFF), or (0xFFFD, 1) for
// a byte that does not start one. "A character is a well-formed sequence or a single stray
// byte" is the convention stated in the C10 assumptions.
func DecodeChar(s string, i int) (rune, int) {
	b0 := s[i]
	if b0 < 0x80 {
		return rune(b0), 1
	}
	cont := func(k int) (byte, bool) {
		if i+k >= len(s) {
			return 0, false
		}
		b := s[i+k]
		return b, b&0xC0 == 0x80
	}
	switch {
	case b0 >= 0xC2 && b0 <= 0xDF:
		b1, ok := cont(1)
		if !ok {
			break
		}
		return rune(b0&0x1F)<<6 | rune(b1&0x3F), 2
	case b0 >= 0xE0 && b0 <= 0xEF:
		b1, ok1 := cont(1)
		b2, ok2 := cont(2)
		if !ok1 || !ok2 {
			break
		}
		if b0 == 0xE0 && b1 < 0xA0 { // overlong
			break
		}
		if b0 == 0xED && b1 > 0x9F { // surrogates
			break
		}
		return rune(b0&0x0F)<<12 | rune(b1&0x3F)<<6 | rune(b2&0x3F), 3
	case b0 >= 0xF0 && b0 <= 0xF4:
		b1, ok1 := cont(1)
		b2, ok2 := cont(2)
		b3, ok3 := cont(3)
		if !ok1 || !ok2 || !ok3 {
			break
		}
		if b0 == 0xF0 && b1 < 0x90 { // overlong
			break
		}
		if b0 == 0xF4 && b1 > 0x8F { // above U+10FFFF
			break
		}
		return rune(b0&0x07)<<18 | rune(b1&0x3F)<<12 | rune(b2&0x3F)<<6 | rune(b3&0x3F), 4
	}
	return 0xFFFD, 1
}

// Text is a string together with its decomposition into units: bytes (byte mode) or
// characters (character mode). Offs[k] is the byte offset of unit k (0-based); Offs[N] = len.
type Text struct {
	S     string
	Chars bool
	Offs  []int
}

func NewText(s string, chars bool) *Text {
	t := &Text{S: s, Chars: chars}
	if !chars {
		t.Offs = make([]int, len(s)+1)
		for i := range t.Offs {
			t.Offs[i] = i
		}
		return t
	}
	t.Offs = make([]int, 0, len(s)+1)
	for i := 0; i < len(s); {
		t.Offs = append(t.Offs, i)
		_, w := DecodeChar(s, i)
		i += w
	}
	t.Offs = append(t.Offs, len(s))
	return t
}

// N is the length of the text in units.
func (t *Text) N() int { return len(t.Offs) - 1 }

// Piece returns units [i, j) (0-based, clamped by the caller).
func (t *Text) Piece(i, j int) string { return t.S[t.Offs[i]:t.Offs[j]] }

// UnitAt returns the unit index of byte offset off, or -1 if off is not a unit boundary.
func (t *Text) UnitAt(off int) int {
	if !t.Chars {
		if off < 0 || off > len(t.S) {
			return -1
		}
		return off
	}
	lo, hi := 0, len(t.Offs)-1
	for lo <= hi {
		mid := (lo + hi) / 2
		switch {
		case t.Offs[mid] == off:
			return mid
		case t.Offs[mid] < off:
			lo = mid + 1
		default:
			hi = mid - 1
		}
	}
	return -1
}

// WellFormed reports whether s is entirely well-formed UTF-8 (by DecodeChar).
func WellFormed(s string) bool {
	for i := 0; i < len(s); {
		r, w := DecodeChar(s, i)
		if r == 0xFFFD && w == 1 { // a well-formed U+FFFD has width 3
			return false
		}
		i += w
	}
	return true
}

// IsASCII reports whether every byte of s is below 0x80.
func IsASCII(s string) bool {
	for i := 0; i < len(s); i++ {
		if s[i] >= 0x80 {
			return false
		}
	}
	return true
}

// Substr is the property's substr(s, m[, n]): "starts at position m (truncated to an
// integer, and taken as 1 if smaller) and returns the next n characters (truncated, none
// if negative, all remaining if n is omitted or exceeds what is left)". All comparisons are
// done on float64 so that no argument, however large or infinite, is ever converted to an
// integer type before it has been clamped.  weak=true (a NaN argument) means the text pins
// nothing down beyond "a contiguous piece of s".
func Substr(t *Text, m float64, hasN bool, n float64) (want string, weak bool) {
	if math.IsNaN(m) || (hasN && math.IsNaN(n)) {
		return "", true
	}
	L := t.N()
	start := math.Trunc(m) // ±Inf stay ±Inf
	if start < 1 {
		start = 1
	}
	if start > float64(L) {
		return "", false
	}
	si := int(start) // now 1 <= start <= L
	if !hasN {
		return t.Piece(si-1, L), false
	}
	cnt := math.Trunc(n)
	if cnt <= 0 {
		return "", false
	}
	rest := L - si + 1
	if cnt >= float64(rest) {
		return t.Piece(si-1, L), false
	}
	return t.Piece(si-1, si-1+int(cnt)), false
}

// Index is the first occurrence of needle in t, in units, 1-based; 0 when none. In
// character mode an occurrence is a run of whole characters of s equal to the characters
// of the needle, i.e. it begins and ends on character boundaries of s.
// byteOnly reports that a byte-level search finds an occurrence where the unit-level
// search finds none or a later one (only possible in character mode when the needle cuts a
// well-formed sequence of s).
func Index(t *Text, needle string) (pos int, byteOnly bool) {
	bytePos := strings.Index(t.S, needle)
	if bytePos < 0 {
		return 0, false
	}
	for from := 0; ; {
		k := strings.Index(t.S[from:], needle)
		if k < 0 {
			return 0, true
		}
		off := from + k
		u := t.UnitAt(off)
		if u >= 0 && t.UnitAt(off+len(needle)) >= 0 {
			return u + 1, off != bytePos
		}
		from = off + 1
	}
}

// Trunc is int(x) for finite x.
func Trunc(x float64) float64 { return math.Trunc(x) }

// ---- replacement strings -------------------------------------------------------------------

// ReplStrict reports whether every backslash in repl is immediately followed by '&' — the
// only backslash use the property text defines ("& is the match while \& is a literal
// ampersand").
func ReplStrict(repl string) bool {
	for i := 0; i < len(repl); i++ {
		if repl[i] == '\\' {
			if i+1 >= len(repl) || repl[i+1] != '&' {
				return false
			}
			i++
		}
	}
	return true
}

// Expand builds the replacement text for one match. posix=true reads the replacement by the
// POSIX rule (`\\` is one backslash, `\&` an ampersand, any other backslash is literal);
// posix=false gives the backslash a meaning only directly before '&' (scanning left to
// right). The two agree whenever ReplStrict holds; where they differ the property text is
// silent and both are accepted.
func Expand(repl, match string, posix bool) string {
	var b strings.Builder
	for i := 0; i < len(repl); i++ {
		c := repl[i]
		switch {
		case c == '&':
			b.WriteString(match)
		case c == '\\' && i+1 < len(repl) && repl[i+1] == '&':
			b.WriteByte('&')
			i++
		case c == '\\' && posix && i+1 < len(repl) && repl[i+1] == '\\':
			b.WriteByte('\\')
			i++
		default:
			b.WriteByte(c)
		}
	}
	return b.String()
}

// Span is one match as byte offsets [B, E).
type Span struct{ B, E int }

// Replace applies the replacement to the given matches (all of them for gsub, the caller
// passes only the first for sub).
func Replace(s string, spans []Span, repl string, posix bool) string {
	var b strings.Builder
	prev := 0
	for _, sp := range spans {
		b.WriteString(s[prev:sp.B])
		b.WriteString(Expand(repl, s[sp.B:sp.E], posix))
		prev = sp.E
	}
	b.WriteString(s[prev:])
	return b.String()
}
