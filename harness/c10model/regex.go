package c10model

// A small regular-expression syntax tree (the POSIX ERE constructs an AWK program may use:
// literals, '.', bracket sets, grouping, alternation, * + ? {m,n}, ^ $, empty branches),
// its printer, a random generator, and an independent matcher that computes the
// leftmost-longest match by brute force over *sets of end positions* — no backtracking
// order, no automaton, so "leftmost" and "longest" are read straight off the definition.

import (
	"fmt"
	"math/rand"
	"strings"
)

type Kind int

const (
	Lit Kind = iota
	Any
	Class
	Cat
	Alt
	Star
	Plus
	Quest
	Rep
	Group
	Bol
	Eol
	Empty
)

type Node struct {
	Kind     Kind
	R        rune      // Lit
	Set      []rune    // Class members
	Ranges   [][2]rune // Class ranges
	Neg      bool      // Class negated
	Subs     []*Node   // Cat, Alt: operands; Star/Plus/Quest/Rep/Group: Subs[0]
	Min, Max int       // Rep; Max = -1 means unbounded
	id       int
}

const metaChars = `\.[]()*+?{}|^$`

// String prints the pattern in ERE syntax (also valid Go regexp syntax).
func (n *Node) String() string {
	var b strings.Builder
	n.print(&b)
	return b.String()
}

func (n *Node) atom() bool {
	switch n.Kind {
	case Lit, Any, Class, Group:
		return true
	}
	return false
}

func (n *Node) print(b *strings.Builder) {
	switch n.Kind {
	case Lit:
		if n.R < 0x80 && strings.ContainsRune(metaChars, n.R) {
			b.WriteByte('\\')
		}
		b.WriteRune(n.R)
	case Any:
		b.WriteByte('.')
	case Class:
		b.WriteByte('[')
		if n.Neg {
			b.WriteByte('^')
		}
		for _, r := range n.Set {
			b.WriteRune(r)
		}
		for _, rg := range n.Ranges {
			b.WriteRune(rg[0])
			b.WriteByte('-')
			b.WriteRune(rg[1])
		}
		b.WriteByte(']')
	case Cat:
		for _, s := range n.Subs {
			if s.Kind == Alt {
				b.WriteByte('(')
				s.print(b)
				b.WriteByte(')')
			} else {
				s.print(b)
			}
		}
	case Alt:
		for i, s := range n.Subs {
			if i > 0 {
				b.WriteByte('|')
			}
			s.print(b)
		}
	case Star, Plus, Quest, Rep:
		s := n.Subs[0]
		if s.atom() {
			s.print(b)
		} else {
			b.WriteByte('(')
			s.print(b)
			b.WriteByte(')')
		}
		switch n.Kind {
		case Star:
			b.WriteByte('*')
		case Plus:
			b.WriteByte('+')
		case Quest:
			b.WriteByte('?')
		case Rep:
			switch {
			case n.Max < 0:
				fmt.Fprintf(b, "{%d,}", n.Min)
			case n.Max == n.Min:
				fmt.Fprintf(b, "{%d}", n.Min)
			default:
				fmt.Fprintf(b, "{%d,%d}", n.Min, n.Max)
			}
		}
	case Group:
		b.WriteByte('(')
		n.Subs[0].print(b)
		b.WriteByte(')')
	case Bol:
		b.WriteByte('^')
	case Eol:
		b.WriteByte('$')
	case Empty:
	}
}

// Features lists the constructs used (for coverage evidence).
func (n *Node) Features(add func(string)) {
	names := [...]string{"lit", "any", "class", "cat", "alt", "star", "plus", "quest", "rep", "group", "bol", "eol", "empty"}
	if n.Kind == Class && n.Neg {
		add("negclass")
	} else if n.Kind == Lit && n.R >= 0x80 {
		add("lit-multibyte")
	} else if n.Kind == Lit && n.R == '\n' {
		add("lit-newline")
	} else {
		add(names[n.Kind])
	}
	for _, s := range n.Subs {
		s.Features(add)
	}
}

// ---- generator ---------------------------------------------------------------------------------

// Gen draws a random pattern over the given alphabet (the subject generator uses the same
// alphabet so that matches are frequent). Characters that would need escaping inside a
// bracket set are not put into sets.
func Gen(rng *rand.Rand, alphabet []rune, depth int) *Node {
	n := genAlt(rng, alphabet, depth)
	number(n, new(int))
	return n
}

func number(n *Node, next *int) {
	n.id = *next
	*next++
	for _, s := range n.Subs {
		number(s, next)
	}
}

// Renumber must be called on a tree built by hand before Matcher is used on it.
func Renumber(n *Node) *Node { number(n, new(int)); return n }

func genAlt(rng *rand.Rand, al []rune, depth int) *Node {
	if depth > 0 && rng.Intn(100) < 22 {
		k := 2 + rng.Intn(2)
		n := &Node{Kind: Alt}
		for i := 0; i < k; i++ {
			if rng.Intn(100) < 8 {
				n.Subs = append(n.Subs, &Node{Kind: Empty})
			} else {
				n.Subs = append(n.Subs, genCat(rng, al, depth-1))
			}
		}
		return n
	}
	return genCat(rng, al, depth)
}

func genCat(rng *rand.Rand, al []rune, depth int) *Node {
	k := 1 + rng.Intn(4)
	if k == 1 {
		return genPiece(rng, al, depth)
	}
	n := &Node{Kind: Cat}
	for i := 0; i < k; i++ {
		n.Subs = append(n.Subs, genPiece(rng, al, depth))
	}
	return n
}

func genPiece(rng *rand.Rand, al []rune, depth int) *Node {
	a := genAtom(rng, al, depth)
	if a.Kind == Bol || a.Kind == Eol {
		return a
	}
	switch r := rng.Intn(100); {
	case r < 14:
		return &Node{Kind: Star, Subs: []*Node{a}}
	case r < 24:
		return &Node{Kind: Plus, Subs: []*Node{a}}
	case r < 33:
		return &Node{Kind: Quest, Subs: []*Node{a}}
	case r < 38:
		min := rng.Intn(3)
		max := min + rng.Intn(3)
		if rng.Intn(4) == 0 {
			max = -1
		}
		if max == 0 {
			max = 1
		}
		return &Node{Kind: Rep, Subs: []*Node{a}, Min: min, Max: max}
	}
	return a
}

func classable(r rune) bool {
	return r != ']' && r != '[' && r != '^' && r != '-' && r != '\\' && r != 0xFFFD
}

func genAtom(rng *rand.Rand, al []rune, depth int) *Node {
	pick := func() rune { return al[rng.Intn(len(al))] }
	switch r := rng.Intn(100); {
	case r < 52:
		return &Node{Kind: Lit, R: pick()}
	case r < 62:
		return &Node{Kind: Any}
	case r < 78:
		n := &Node{Kind: Class, Neg: rng.Intn(3) == 0}
		for i, k := 0, 1+rng.Intn(3); i < k; i++ {
			if c := pick(); classable(c) && !containsRune(n.Set, c) {
				n.Set = append(n.Set, c)
			}
		}
		if rng.Intn(3) == 0 {
			lo := rune('a' + rng.Intn(3))
			n.Ranges = append(n.Ranges, [2]rune{lo, lo + rune(rng.Intn(3))})
		}
		if len(n.Set) == 0 && len(n.Ranges) == 0 {
			n.Set = []rune{'a'}
		}
		return n
	case r < 92:
		if depth <= 0 {
			return &Node{Kind: Lit, R: pick()}
		}
		if rng.Intn(12) == 0 {
			return &Node{Kind: Group, Subs: []*Node{{Kind: Empty}}}
		}
		return &Node{Kind: Group, Subs: []*Node{genAlt(rng, al, depth-1)}}
	case r < 96:
		return &Node{Kind: Bol}
	default:
		return &Node{Kind: Eol}
	}
}

func containsRune(l []rune, r rune) bool {
	for _, x := range l {
		if x == r {
			return true
		}
	}
	return false
}

// ---- independent matcher -----------------------------------------------------------------------

// MaxMatchLen is the longest subject the matcher handles (end-position sets are one uint64).
const MaxMatchLen = 62

// Matcher evaluates one pattern tree on one subject.
type Matcher struct {
	root *Node
	s    string
	memo map[[2]int]uint64
}

func NewMatcher(root *Node, s string) *Matcher {
	if len(s) > MaxMatchLen {
		panic("subject too long for the independent matcher")
	}
	return &Matcher{root: root, s: s, memo: map[[2]int]uint64{}}
}

// ends returns the set (bit j = byte offset j) of positions at which a match of n that
// starts at offset i can end.
func (m *Matcher) ends(n *Node, i int) uint64 {
	key := [2]int{n.id, i}
	if v, ok := m.memo[key]; ok {
		return v
	}
	v := m.compute(n, i)
	m.memo[key] = v
	return v
}

func (m *Matcher) each(set uint64, f func(j int)) {
	for j := 0; set != 0; j++ {
		if set&1 != 0 {
			f(j)
		}
		set >>= 1
	}
}

// closure returns every position reachable from the set by zero or more matches of n.
func (m *Matcher) closure(n *Node, from uint64) uint64 {
	reach, frontier := from, from
	for frontier != 0 {
		var next uint64
		m.each(frontier, func(j int) { next |= m.ends(n, j) })
		next &^= reach
		reach |= next
		frontier = next
	}
	return reach
}

func (m *Matcher) step(n *Node, from uint64) uint64 {
	var next uint64
	m.each(from, func(j int) { next |= m.ends(n, j) })
	return next
}

func (m *Matcher) compute(n *Node, i int) uint64 {
	here := uint64(1) << uint(i)
	switch n.Kind {
	case Lit, Any, Class:
		if i >= len(m.s) {
			return 0
		}
		r, w := DecodeChar(m.s, i)
		ok := false
		switch n.Kind {
		case Lit:
			ok = r == n.R && !(r == 0xFFFD && w == 1)
		case Any:
			ok = true // '.' matches every character, newline and stray bytes included
		case Class:
			in := containsRune(n.Set, r)
			for _, rg := range n.Ranges {
				if r >= rg[0] && r <= rg[1] {
					in = true
				}
			}
			ok = in != n.Neg
		}
		if ok {
			return uint64(1) << uint(i+w)
		}
		return 0
	case Cat:
		cur := here
		for _, s := range n.Subs {
			cur = m.step(s, cur)
			if cur == 0 {
				break
			}
		}
		return cur
	case Alt:
		var out uint64
		for _, s := range n.Subs {
			out |= m.ends(s, i)
		}
		return out
	case Group:
		return m.ends(n.Subs[0], i)
	case Quest:
		return here | m.ends(n.Subs[0], i)
	case Star:
		return m.closure(n.Subs[0], here)
	case Plus:
		return m.closure(n.Subs[0], m.ends(n.Subs[0], i))
	case Rep:
		cur := here
		for k := 0; k < n.Min; k++ {
			cur = m.step(n.Subs[0], cur)
		}
		if n.Max < 0 {
			return m.closure(n.Subs[0], cur)
		}
		out := cur
		for k := n.Min; k < n.Max; k++ {
			cur = m.step(n.Subs[0], cur)
			out |= cur
		}
		return out
	case Bol:
		if i == 0 {
			return here
		}
		return 0
	case Eol:
		if i == len(m.s) {
			return here
		}
		return 0
	case Empty:
		return here
	}
	return 0
}

// Find returns the leftmost-longest match starting at or after byte offset from (which
// must be a character boundary): the smallest start with any match and, for it, the
// largest end.
func (m *Matcher) Find(from int) (Span, bool) {
	for i := from; i <= len(m.s); {
		if set := m.ends(m.root, i); set != 0 {
			e := 0
			for j := 63; j >= 0; j-- {
				if set&(uint64(1)<<uint(j)) != 0 {
					e = j
					break
				}
			}
			return Span{i, e}, true
		}
		if i == len(m.s) {
			break
		}
		_, w := DecodeChar(m.s, i)
		i += w
	}
	return Span{}, false
}

// All returns the successive non-overlapping leftmost-longest matches, with the AWK rule for
// empty matches: an empty match directly after the previous match is not a match; after an
// empty match the scan moves on by one character.
func (m *Matcher) All() []Span {
	var out []Span
	prevEnd := -1
	for pos := 0; pos <= len(m.s); {
		sp, ok := m.Find(pos)
		if !ok {
			break
		}
		if sp.E == sp.B {
			if sp.B != prevEnd {
				out = append(out, sp)
			}
			prevEnd = sp.E
			if sp.B >= len(m.s) {
				break
			}
			_, w := DecodeChar(m.s, sp.B)
			pos = sp.B + w
		} else {
			out = append(out, sp)
			prevEnd = sp.E
			pos = sp.E
		}
	}
	return out
}

// RewriteCasePairs returns a copy of the tree in which every bracket set that consists of
// exactly the two cases of one letter ([Aa]) is spelled as the alternation (A|a), and
// whether anything was rewritten. The two spellings mean the same; Go's regexp/syntax
// turns the first into a case-folded literal, which is what the diagnosis in the property
// file needs to tell a standard-library defect from a goawk one.
func (n *Node) RewriteCasePairs() (*Node, bool) {
	changed := false
	var walk func(n *Node) *Node
	walk = func(n *Node) *Node {
		c := *n
		if n.Kind == Class && !n.Neg && len(n.Ranges) == 0 && len(n.Set) == 2 && n.Set[0] < 0x80 && n.Set[1] < 0x80 &&
			n.Set[0]^n.Set[1] == 0x20 && (n.Set[0]|0x20) >= 'a' && (n.Set[0]|0x20) <= 'z' {
			changed = true
			return &Node{Kind: Group, Subs: []*Node{{Kind: Alt, Subs: []*Node{{Kind: Lit, R: n.Set[0]}, {Kind: Lit, R: n.Set[1]}}}}}
		}
		c.Subs = nil
		for _, s := range n.Subs {
			c.Subs = append(c.Subs, walk(s))
		}
		return &c
	}
	out := walk(n)
	number(out, new(int))
	return out, changed
}
