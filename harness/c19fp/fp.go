// Package c19fp takes fingerprints of goawk's parse result (C19): the verdict of a parse, and for an
// accepted program a line-oriented dump of everything reachable from *parser.Program — syntax
// tree with positions, resolver tables, compiled code and constant tables (exported or not) —
// plus the two public renderings (Disassemble, String).  Two parses of one source must give
// byte-equal fingerprints; the fingerprint of a Program must not change when it is executed.
//
// The dump is a reflective walk ("path = value" lines, map keys sorted, pointers followed once),
// so a field added to any of the structures (say, a cache slipped into compiler.Program) is
// covered without touching this file.
package c19fp

import (
	"bytes"
	"crypto/sha256"
	"encoding/hex"
	"fmt"
	"hash"
	"io"
	"math"
	"reflect"
	"regexp"
	"sort"
	"strconv"
	"strings"

	"github.com/benhoyt/goawk/parser"

	"verifharness/run"
)

// ---- reflective dump ---------------------------------------------------------------------

// The walk has two output modes over the same traversal:
//
//	text: "path = value" lines (for humans: diffs name the exact field that differs);
//	hash: the values and structural markers only, streamed into SHA-256 (cheap enough to
//	      take after every one of thousands of parses).
//
// Comparisons are made between hashes; the text is produced when a difference has to be shown.
type dumper struct {
	text *strings.Builder // text mode if non-nil
	h    hash.Hash        // hash mode otherwise
	path []byte
	seen map[uintptr]seenAt // pointer/map identity -> where it was first expanded
	skip func(structType, field string) bool
	n    int
}

type seenAt struct {
	ord  int
	path string
}

var regexpType = reflect.TypeOf((*regexp.Regexp)(nil))

func (d *dumper) emit(val string) {
	d.n++
	if d.text != nil {
		d.text.Write(d.path)
		d.text.WriteString(" = ")
		d.text.WriteString(val)
		d.text.WriteByte('\n')
		return
	}
	io.WriteString(d.h, val)
	d.h.Write([]byte{0})
}

func (d *dumper) push(seg string) int {
	n := len(d.path)
	d.path = append(d.path, seg...)
	return n
}

func (d *dumper) pushIndex(i int) int {
	n := len(d.path)
	d.path = append(d.path, '[')
	d.path = strconv.AppendInt(d.path, int64(i), 10)
	d.path = append(d.path, ']')
	return n
}

func (d *dumper) backref(s seenAt) {
	if d.text != nil {
		d.emit("-> " + s.path)
	} else {
		d.emit("->" + strconv.Itoa(s.ord))
	}
}

func (d *dumper) mark(p uintptr) {
	s := seenAt{ord: len(d.seen)}
	if d.text != nil {
		s.path = string(d.path)
	}
	d.seen[p] = s
}

func basicKind(k reflect.Kind) bool {
	switch k {
	case reflect.Bool, reflect.Int, reflect.Int8, reflect.Int16, reflect.Int32, reflect.Int64,
		reflect.Uint, reflect.Uint8, reflect.Uint16, reflect.Uint32, reflect.Uint64, reflect.Uintptr,
		reflect.Float32, reflect.Float64, reflect.String:
		return true
	}
	return false
}

// basic renders a value of a basic kind without calling Interface (works on unexported fields).
func basic(v reflect.Value) string {
	switch v.Kind() {
	case reflect.Bool:
		return strconv.FormatBool(v.Bool())
	case reflect.Int, reflect.Int8, reflect.Int16, reflect.Int32, reflect.Int64:
		return strconv.FormatInt(v.Int(), 10)
	case reflect.Uint, reflect.Uint8, reflect.Uint16, reflect.Uint32, reflect.Uint64, reflect.Uintptr:
		return strconv.FormatUint(v.Uint(), 10)
	case reflect.Float32, reflect.Float64:
		// bit-exact: -0, NaN payloads and the last ulp matter for "the same compiled program"
		return strconv.FormatFloat(v.Float(), 'g', -1, 64) + "/" + strconv.FormatUint(math.Float64bits(v.Float()), 16)
	case reflect.String:
		return strconv.Quote(v.String())
	}
	return "?" + v.Kind().String()
}

func (d *dumper) walk(v reflect.Value) {
	switch v.Kind() {
	case reflect.Invalid:
		d.emit("<invalid>")
	case reflect.Interface:
		if v.IsNil() {
			d.emit("nil-interface")
			return
		}
		e := v.Elem()
		d.emit("interface holding " + e.Type().String())
		d.walk(e)
	case reflect.Ptr:
		if v.IsNil() {
			d.emit("nil")
			return
		}
		if v.Type() == regexpType {
			// A compiled regexp is represented by its source text (the matcher's own
			// machinery is not goawk state).
			d.emit("regexp " + strconv.Quote(v.Elem().FieldByName("expr").String()))
			return
		}
		if first, ok := d.seen[v.Pointer()]; ok {
			d.backref(first)
			return
		}
		d.mark(v.Pointer())
		d.walk(v.Elem())
	case reflect.Struct:
		t := v.Type()
		if t.NumField() == 0 {
			d.emit("{}")
		}
		for i := 0; i < t.NumField(); i++ {
			name := t.Field(i).Name
			if d.skip != nil && d.skip(t.String(), name) {
				continue
			}
			n := d.push("." + name)
			d.walk(v.Field(i))
			d.path = d.path[:n]
		}
	case reflect.Slice, reflect.Array:
		if v.Kind() == reflect.Slice && v.IsNil() {
			d.emit("nil-slice")
			return
		}
		if basicKind(v.Type().Elem().Kind()) {
			// one line per slice of numbers/strings (code blocks, constant tables)
			var sb strings.Builder
			sb.WriteString("len ")
			sb.WriteString(strconv.Itoa(v.Len()))
			sb.WriteString(" [")
			for i := 0; i < v.Len(); i++ {
				if i > 0 {
					sb.WriteByte(' ')
				}
				sb.WriteString(basic(v.Index(i)))
			}
			sb.WriteByte(']')
			d.emit(sb.String())
			return
		}
		d.emit("len " + strconv.Itoa(v.Len()))
		for i := 0; i < v.Len(); i++ {
			n := d.pushIndex(i)
			d.walk(v.Index(i))
			d.path = d.path[:n]
		}
	case reflect.Map:
		if v.IsNil() {
			d.emit("nil-map")
			return
		}
		if first, ok := d.seen[v.Pointer()]; ok {
			d.backref(first)
			return
		}
		d.mark(v.Pointer())
		type kv struct {
			k string
			v reflect.Value
		}
		var kvs []kv
		for _, k := range v.MapKeys() {
			var ks string
			if basicKind(k.Kind()) {
				ks = basic(k)
			} else {
				ks = "key:" + k.Type().String()
			}
			kvs = append(kvs, kv{ks, v.MapIndex(k)})
		}
		sort.Slice(kvs, func(i, j int) bool { return kvs[i].k < kvs[j].k })
		d.emit("map len " + strconv.Itoa(len(kvs)))
		for _, e := range kvs {
			n := d.push("[" + e.k + "]")
			if d.text == nil {
				d.emit(e.k) // the key is part of the content (in text mode it is in the path)
			}
			d.walk(e.v)
			d.path = d.path[:n]
		}
	case reflect.Func, reflect.Chan, reflect.UnsafePointer:
		if v.IsNil() {
			d.emit("nil-" + v.Kind().String())
		} else {
			d.emit("non-nil " + v.Kind().String())
		}
	default:
		if basicKind(v.Kind()) {
			d.emit(basic(v))
		} else {
			d.emit("?" + v.Kind().String())
		}
	}
}

// Walker dumps several roots in sequence with one pointer-identity table (a pointer reached
// again from a later root is shown as a back-reference to where it was first expanded).
type Walker struct {
	text bool
	seen map[uintptr]seenAt
	skip func(structType, field string) bool
}

// NewWalker: text=true produces readable lines, text=false a SHA-256 hex digest.
// skip(structType, fieldName) leaves that struct field out.
func NewWalker(text bool, skip func(structType, field string) bool) *Walker {
	return &Walker{text: text, seen: map[uintptr]seenAt{}, skip: skip}
}

// Dump walks everything reachable from v.
func (w *Walker) Dump(root string, v any) string {
	d := &dumper{seen: w.seen, skip: w.skip, path: []byte(root)}
	if w.text {
		d.text = &strings.Builder{}
	} else {
		d.h = sha256.New()
	}
	d.walk(reflect.ValueOf(v))
	if w.text {
		return strings.TrimSuffix(d.text.String(), "\n")
	}
	return hex.EncodeToString(d.h.Sum(nil)[:8])
}

// ---- parse fingerprint -------------------------------------------------------------------

// Parse is the fingerprint of one ParseProgram call, split into components so that a
// disagreement can be named narrowly. H (one digest per component) is always present and is
// what gets compared; the three reflective text dumps are filled in only when asked for.
type Parse struct {
	Verdict string `json:"verdict"` // ok | error | panic
	ErrType string `json:"err_type,omitempty"`
	Message string `json:"message,omitempty"`
	Line    int    `json:"line,omitempty"`
	Col     int    `json:"col,omitempty"`
	// accepted programs only
	Disasm string `json:"disasm,omitempty"` // Program.Disassemble
	Str    string `json:"str,omitempty"`    // Program.String
	// text dumps (Full only)
	AST      string `json:"ast,omitempty"`      // syntax tree incl. positions
	Resolver string `json:"resolver,omitempty"` // resolver tables: variable scope/type/index, function info
	Compiled string `json:"compiled,omitempty"` // code blocks, Nums, Strs, Regexes, function table, name tables

	H map[string]string `json:"h"`
}

// Components in the order they are compared.
var Components = []string{"verdict", "message", "position", "disasm", "string", "ast", "resolver", "compiled"}

// Get returns the text of a component ("" for a reflective dump that was not filled in).
func (p Parse) Get(component string) string {
	switch component {
	case "verdict":
		return p.Verdict + " " + p.ErrType
	case "message":
		if p.Verdict == "panic" {
			return firstLine(p.Message) // the captured stack carries goroutine ids
		}
		return p.Message
	case "position":
		if p.Verdict != "error" {
			return ""
		}
		return fmt.Sprintf("%d:%d", p.Line, p.Col)
	case "disasm":
		return p.Disasm
	case "string":
		return p.Str
	case "ast":
		return p.AST
	case "resolver":
		return p.Resolver
	case "compiled":
		return p.Compiled
	}
	return ""
}

// Key is the whole fingerprint as one comparable string.
func (p Parse) Key() string {
	var sb strings.Builder
	for _, c := range Components {
		sb.WriteString(p.H[c])
		sb.WriteByte(' ')
	}
	return sb.String()
}

// Differing lists the components whose digests differ.
func Differing(a, b Parse) []string {
	var out []string
	for _, c := range Components {
		if a.H[c] != b.H[c] {
			out = append(out, c)
		}
	}
	return out
}

// Short is a one-line rendering of the verdict part.
func (p Parse) Short() string {
	switch p.Verdict {
	case "ok":
		return "accepted"
	case "error":
		return fmt.Sprintf("%s at %d:%d: %s", p.ErrType, p.Line, p.Col, p.Message)
	}
	return "PANIC " + firstLine(p.Message)
}

// resolverPrivate names the two fields of the resolver's private state that are left out of
// parse-to-parse comparison (both are kept in the immutability fingerprint, Whole):
//   - updates: a scratch counter of the type-inference fixpoint loop. No consumer reads it and
//     it legitimately depends on the order in which independent functions were visited
//     (don't-care: the property speaks of verdict, message, position and compiled program);
//   - funcs: name -> function node of the same tree, i.e. a second route into the "ast"
//     component, which covers every function node.
func resolverPrivate(structType, field string) bool {
	return (field == "updates" || field == "funcs") && strings.HasSuffix(structType, "resolver.resolver")
}

// dumps walks an accepted program: syntax tree (optional: it is by far the largest part and
// the in-process monitor takes it on a sample of the parses), resolver tables, compiled program.
func dumps(prog *parser.Program, text, withAST bool) (ast, res, compiled string) {
	if withAST {
		ast = NewWalker(text, nil).Dump("Resolved.Program", &prog.ResolvedProgram.Program)
	}
	// the remaining fields of ResolvedProgram (the private resolver tables)
	res = NewWalker(text, func(st, f string) bool {
		return resolverPrivate(st, f) || (f == "Program" && strings.HasSuffix(st, "resolver.ResolvedProgram"))
	}).Dump("Resolved", &prog.ResolvedProgram)
	compiled = NewWalker(text, nil).Dump("Compiled", prog.Compiled)
	return
}

func (p *Parse) seal() {
	p.H = map[string]string{}
	for _, c := range []string{"verdict", "message", "position", "disasm", "string"} {
		p.H[c] = digest(p.Get(c))
	}
}

// OfProgram fingerprints an accepted program. full also fills in the text dumps.
func OfProgram(prog *parser.Program, full bool) Parse { return ofProgram(prog, full, true) }

func ofProgram(prog *parser.Program, full, withAST bool) Parse {
	p := Parse{Verdict: "ok"}
	p.Disasm = disassemble(prog)
	p.Str = guarded(func() string { return prog.String() })
	p.seal()
	// A panic while rendering or walking (an index table that does not fit the code, say)
	// becomes the content of that component, so it is compared and reported like any other
	// difference instead of killing the batch.
	if g := guarded(func() string {
		p.H["ast"], p.H["resolver"], p.H["compiled"] = dumps(prog, false, withAST)
		return ""
	}); g != "" {
		p.H["compiled"] = digest(g)
	}
	if full {
		p.Fill(prog)
	}
	return p
}

// Fill adds the text dumps of prog (the program p was taken from).
func (p *Parse) Fill(prog *parser.Program) {
	if prog != nil && p.Verdict == "ok" {
		if g := guarded(func() string {
			p.AST, p.Resolver, p.Compiled = dumps(prog, true, true)
			return ""
		}); g != "" {
			p.Compiled = g
		}
	}
}

// guarded runs f; a panic becomes the returned text.
func guarded(f func() string) (out string) {
	defer func() {
		if r := recover(); r != nil {
			out = fmt.Sprintf("PANIC: %v", r)
		}
	}()
	return f()
}

// disassemble renders the program's code; an error or panic becomes part of the text.
func disassemble(prog *parser.Program) string {
	var b bytes.Buffer
	if g := guarded(func() string {
		if err := prog.Disassemble(&b); err != nil {
			return "DISASSEMBLE ERROR: " + err.Error()
		}
		return ""
	}); g != "" {
		b.WriteString("\n" + g)
	}
	return b.String()
}

// Of parses src once and fingerprints the result.
func Of(src string, funcs map[string]any, full bool) (Parse, *parser.Program) {
	return of(src, funcs, full, true)
}

// OfLight is Of without the syntax-tree digest (H["ast"] is empty).
func OfLight(src string, funcs map[string]any) (Parse, *parser.Program) {
	return of(src, funcs, false, false)
}

func of(src string, funcs map[string]any, full, withAST bool) (Parse, *parser.Program) {
	prog, err, pm := run.Parse(src, funcs)
	switch {
	case pm != "":
		p := Parse{Verdict: "panic", Message: pm}
		p.seal()
		return p, nil
	case err != nil:
		p := Parse{Verdict: "error", ErrType: fmt.Sprintf("%T", err), Message: err.Error()}
		if pe, ok := err.(*parser.ParseError); ok {
			p.Message, p.Line, p.Col = pe.Message, pe.Position.Line, pe.Position.Column
		}
		p.seal()
		return p, nil
	}
	return ofProgram(prog, full, withAST), prog
}

// ErrorParse builds the fingerprint of a rejected parse from its parts (used for errors read
// back from the command line tool's stderr).
func ErrorParse(message string, line, col int) Parse {
	p := Parse{Verdict: "error", ErrType: "*parser.ParseError", Message: message, Line: line, Col: col}
	p.seal()
	return p
}

// AcceptedParse is the fingerprint of an accepted parse of which only the verdict is known
// (an exit status 0 of the command line tool).
func AcceptedParse() Parse {
	p := Parse{Verdict: "ok"}
	p.seal()
	return p
}

// Whole is the immutability fingerprint of a Program: everything reachable from it (nothing
// skipped) plus its two renderings. text=false gives a digest.
func Whole(prog *parser.Program, text bool) string {
	dis := disassemble(prog)
	str := guarded(func() string { return prog.String() })
	dump := guarded(func() string { return NewWalker(text, nil).Dump("Program", prog) })
	if !text {
		return dump + "/" + digest(dis) + "/" + digest(str)
	}
	return dump + "\n--- disassembly\n" + dis + "\n--- string\n" + str
}

// FirstDiff names the first line at which two multi-line texts differ.
func FirstDiff(a, b string) string {
	la, lb := strings.Split(a, "\n"), strings.Split(b, "\n")
	for i := 0; i < len(la) || i < len(lb); i++ {
		var x, y string
		if i < len(la) {
			x = la[i]
		} else {
			x = "<absent>"
		}
		if i < len(lb) {
			y = lb[i]
		} else {
			y = "<absent>"
		}
		if x != y {
			return fmt.Sprintf("line %d: %s  |vs|  %s", i+1, clip(x, 300), clip(y, 300))
		}
	}
	return "equal"
}

// DiffLines returns the pairs of differing lines (texts with equal line counts), capped.
func DiffLines(a, b string, max int) (pairs [][2]string, sameShape bool) {
	la, lb := strings.Split(a, "\n"), strings.Split(b, "\n")
	if len(la) != len(lb) {
		return nil, false
	}
	for i := range la {
		if la[i] != lb[i] {
			if len(pairs) < max {
				pairs = append(pairs, [2]string{la[i], lb[i]})
			}
		}
	}
	return pairs, true
}

func clip(s string, n int) string {
	if len(s) > n {
		return s[:n] + "..."
	}
	return s
}

func firstLine(s string) string {
	if i := strings.IndexByte(s, '\n'); i >= 0 {
		return s[:i]
	}
	return s
}

func digest(s string) string {
	sum := sha256.Sum256([]byte(s))
	return hex.EncodeToString(sum[:8])
}

// Hash is exported for callers that compare whole fingerprints.
func Hash(s string) string { return digest(s) }
