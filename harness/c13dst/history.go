// Package c13dst holds the C13 workload and oracle: output histories (sequences of
// print/printf/close/fflush/system/getline/exit/run-time-error operations over stdout, files,
// command sinks and commands that relay to the shared stdout), their rendering as AWK
// programs, the executable destination model (DST) written from the property text, and the
// comparator for the shared standard output (conservation over disjoint alphabets plus the
// causal order the property demands).  It does not import goawk.
package c13dst

import (
	"fmt"
	"math/rand"
)

// ---- destinations --------------------------------------------------------------------------

type DestKind string

const (
	Stdout DestKind = "stdout"
	File   DestKind = "file"  // W/f<i>, written with > or >>
	Sink   DestKind = "sink"  // command "…catto:W/s<i>.out…": everything written to it ends up in that file
	Relay  DestKind = "relay" // command "cat": relays what it is given to the SHARED standard output
	// Stderr is the name "/dev/stderr" used as an output file: the bytes go to the error stream
	// (whole lines only, each carrying a marker, so that they can be told from goawk's own messages).
	Stderr DestKind = "stderr"
)

type Dest struct {
	Kind DestKind `json:"k"`
	Idx  int      `json:"i"`
}

// Key is the short stable name of a destination ("out", "f0", "s1", "r0").
func (d Dest) Key() string {
	switch d.Kind {
	case File:
		return fmt.Sprintf("f%d", d.Idx)
	case Sink:
		return fmt.Sprintf("s%d", d.Idx)
	case Relay:
		return fmt.Sprintf("r%d", d.Idx)
	case Stderr:
		return "err"
	}
	return "out"
}

// SinkSpec describes the command behind sink i: [sleep:<ms>;]catto|appendto:<W>/s<i>.out[;exit:<n>]
type SinkSpec struct {
	SleepMs int  `json:"sleep,omitempty"` // the command sleeps before it starts copying: a close() that does not wait is visible
	Append  bool `json:"append,omitempty"`
	Exit    int  `json:"exit,omitempty"`
}

// RelaySpec describes relay i: "cat[;exit:<n>]" (relay 1 is spelled " cat…" so that the two
// names differ).
type RelaySpec struct {
	Exit int `json:"exit,omitempty"`
}

// ---- operations ----------------------------------------------------------------------------

type OpKind string

const (
	Print      OpKind = "print"
	Close      OpKind = "close"
	Fflush     OpKind = "fflush"      // fflush(name); Dest.Kind==Stdout means fflush()
	System     OpKind = "system"      // system("emitraw:<digits>") — child writes to the shared stdout
	GetlineW   OpKind = "getline-w"   // getline from a name that is open for OUTPUT (ends the run with an error in goawk)
	GetlineCmd OpKind = "getline-cmd" // "emitraw:x;exit:<n>" | getline v; close(...) → status
	Exit       OpKind = "exit"
	DivZero    OpKind = "divzero" // run-time error
	Snap       OpKind = "snap"    // API only: the harness reads the destination's file NOW (native function)
	// SetMode assigns OUTPUTMODE in the middle of the run (Form = "csv" | "tsv" | "none").
	SetMode OpKind = "setmode"
)

// Print forms.
const (
	FPrint1   = "print1"   // print x            → x ORS
	FPrint2   = "print2"   // print a, b         → a OFS b ORS   (OFS is "z")
	FPrintf   = "printf"   // printf "%s", x     → x
	FPrintfT  = "printfT"  // printf "%s<T>", x  → x T           (T = the destination's terminator)
	FPrint0   = "print0"   // print              → $0 ORS        (main section only)
	FPrintORS = "printORS" // ORS=T; print x; ORS="\n"           (relays: the terminator must stay in the alphabet)
	// FPrint3Q: print a, q, b where q is a value that needs quoting in CSV/TSV output mode
	// (an embedded double quote, a leading space, the separator).  Generated in CSV/TSV mode
	// only: the row is a <sep> "q-quoted" <sep> b "\n".
	FPrint3Q = "print3q"
)

// Output modes (OUTPUTMODE / Config.OutputMode / -o).
const (
	ModeNone = ""
	ModeCSV  = "csv"
	ModeTSV  = "tsv"
)

type Op struct {
	Kind   OpKind `json:"op"`
	Dest   Dest   `json:"d"`
	Redir  string `json:"r,omitempty"` // ">" ">>" "|" or "" (stdout)
	Form   string `json:"f,omitempty"`
	Seq    int    `json:"seq,omitempty"` // per-destination line counter (carried in the line)
	Size   int    `json:"n,omitempty"`   // payload bytes (without terminator)
	Status int    `json:"st,omitempty"`  // Exit / GetlineCmd status
	// Name: a Print to Dest Stdout that goes through a redirection to a NAME of standard output:
	// "/dev/stdout" or "-" (Redir is ">" or ">>"); empty for a plain print.
	Name string `json:"name,omitempty"`
}

// History is one generated case: a linear operation sequence cut into BEGIN, per-record main
// actions and END, plus the destination table.
type History struct {
	Ops    []Op        `json:"ops"`
	CutA   int         `json:"cut_a"` // BEGIN = ops[0:CutA]
	CutB   int         `json:"cut_b"` // main = ops[CutA:CutB] spread over NRec records; END = ops[CutB:]
	NRec   int         `json:"nrec"`
	FuncLo int         `json:"func_lo"` // ops[FuncLo:FuncHi] (inside one block) are wrapped in a user function
	FuncHi int         `json:"func_hi"`
	NFiles int         `json:"nfiles"`
	Sinks  []SinkSpec  `json:"sinks,omitempty"`
	Relays []RelaySpec `json:"relays,omitempty"`
	Pre    []string    `json:"pre,omitempty"` // destination keys whose file exists before the run (old content)
	CLI    bool        `json:"cli,omitempty"` // rendered for the goawk binary (/bin/sh -c vsh …, results file instead of native functions)
	// Mode is the output mode at the start of the run ("" | "csv" | "tsv"), ModeVia how it is
	// set: "config" = Config.OutputMode (API) / -o (CLI), "begin" = BEGIN { OUTPUTMODE = "…" }.
	// SetMode ops change it during the run.
	Mode    string `json:"mode,omitempty"`
	ModeVia string `json:"mode_via,omitempty"`
	// CRLF: Config.NewlineOutput = CRLFNewlineMode (API) / -N crlf (CLI): every "\n" the program
	// prints is delivered as "\r\n".
	CRLF bool `json:"crlf,omitempty"`
}

// Params steer the generator.
type Params struct {
	MaxOps int
	// Children: "none" (no child shares stdout), "system" (synchronous children only),
	// "quiet" (relays whose sessions contain nothing that touches stdout), "exposed" (relays
	// mixed freely with the program's own stdout traffic: the concurrent case).
	Children string
	Fault    bool // fault-enumeration program: stdout + files only, ends normally or by exit
	Snaps    bool // emit Snap ops (API mode)
	MaxSize  int  // largest single payload
	Budget   int  // total payload bytes per history
	Tiny     bool // all payloads small (race runs inside the harness process)
	// CSV: the history runs (at least partly) in CSV or TSV output mode, with print statements of
	// one or several arguments to several distinct destinations.  CRLF: newline output mode CRLF.
	// Names: standard output is also written through its names "/dev/stdout" and "-", and
	// "/dev/stderr" is used as an output file.
	CSV   bool
	CRLF  bool
	Names bool
}

// blockOf returns (block id, section) of op index i: block 0 = BEGIN, 1..NRec = record, NRec+1 = END.
func (h *History) blockOf(i int) int {
	switch {
	case i < h.CutA:
		return 0
	case i >= h.CutB:
		return h.NRec + 1
	}
	n := h.CutB - h.CutA
	return 1 + (i-h.CutA)*h.NRec/n
}

// RecordText is the content of input record r (1-based): letters only, so that a bare
// `print` stays inside the program's stdout alphabet.
func RecordText(r int) string { return "rec" + string(rune('a'+(r-1)%26)) + "q" }

// Section names where the run ended, for coverage.
func (h *History) SectionOf(i int) string {
	b := h.blockOf(i)
	s := "main"
	if b == 0 {
		s = "BEGIN"
	} else if b == h.NRec+1 {
		s = "END"
	}
	if i >= h.FuncLo && i < h.FuncHi {
		s += "+func"
	}
	return s
}

// ---- generator -----------------------------------------------------------------------------

type genState struct {
	rng    *rand.Rand
	p      Params
	h      *History
	open   map[string]string // key → redirect it was opened with
	seq    map[string]int
	budget int
	mode   string // current output mode
}

func (g *genState) size() int {
	r := g.rng.Intn(1000)
	var n int
	switch {
	case g.p.Tiny || r < 700:
		n = 1 + g.rng.Intn(40)
	case r < 880:
		n = 200 + g.rng.Intn(5000)
	case r < 960:
		n = 65536 - 4 + g.rng.Intn(9) // straddles the 64 KiB buffers
	case r < 990:
		n = 66000 + g.rng.Intn(140000)
	default:
		n = 300000 + g.rng.Intn(750000) // up to 1 MiB
	}
	if g.p.MaxSize > 0 && n > g.p.MaxSize {
		n = 1 + g.rng.Intn(g.p.MaxSize)
	}
	if n > g.budget {
		n = 1 + g.rng.Intn(40)
	}
	g.budget -= n
	return n
}

func (g *genState) print(d Dest, inMain bool) Op {
	op := Op{Kind: Print, Dest: d}
	k := d.Key()
	g.seq[k]++
	op.Seq = g.seq[k]
	op.Size = g.size()
	switch d.Kind {
	case Stdout:
		op.Form = []string{FPrint1, FPrint1, FPrint2, FPrintf, FPrintfT}[g.rng.Intn(5)]
		if g.p.Names && g.rng.Intn(5) == 0 {
			op.Redir = []string{">", ">>"}[g.rng.Intn(2)]
			op.Name = []string{"/dev/stdout", "/dev/stdout", "-"}[g.rng.Intn(3)]
		}
	case File:
		op.Redir = []string{">", ">", ">>"}[g.rng.Intn(3)]
		op.Form = []string{FPrint1, FPrint1, FPrint2, FPrintf, FPrintfT}[g.rng.Intn(5)]
		if g.mode == ModeNone && g.rng.Intn(10) == 0 {
			// printf of nothing: no byte is written, but the name is opened (created, truncated by >)
			op.Form, op.Size = FPrintf, 0
		}
	case Sink:
		op.Redir = "|"
		op.Form = []string{FPrint1, FPrint2, FPrintf, FPrintfT}[g.rng.Intn(4)]
	case Relay:
		op.Redir = "|"
		op.Form = []string{FPrintf, FPrintfT, FPrintfT, FPrintORS}[g.rng.Intn(4)]
		if g.mode != ModeNone && op.Form == FPrintORS {
			op.Form = FPrintfT // print ignores ORS in CSV/TSV mode: the terminator would leave the relay's alphabet
		}
	case Stderr:
		op.Redir = []string{">", ">>"}[g.rng.Intn(2)]
		op.Form = []string{FPrint1, FPrint2, FPrintfT}[g.rng.Intn(3)] // whole lines only
		if op.Size > 5000 {
			op.Size = 1 + g.rng.Intn(5000)
		}
	}
	// CSV/TSV output mode: most print statements are the ones the mode changes (print with
	// arguments), every third with a value that needs quoting.
	if g.mode != ModeNone && d.Kind != Relay {
		switch g.rng.Intn(6) {
		case 0, 1:
			op.Form = FPrint2
		case 2, 3:
			op.Form = FPrint3Q
		case 4:
			op.Form = FPrint1
		}
	}
	if inMain && d.Kind != Relay && d.Kind != Stderr && g.rng.Intn(8) == 0 {
		op.Form, op.Size = FPrint0, 0
	}
	if (op.Form == FPrint2 || op.Form == FPrint3Q) && op.Size < 2 {
		op.Size = 2
	}
	if d.Kind == Stderr && op.Size < 16 {
		op.Size = 16 // the marker must be complete and inside the first print argument
	}
	if d.Kind != Stdout && d.Kind != Stderr {
		if _, ok := g.open[k]; !ok {
			g.open[k] = op.Redir
		}
	}
	return op
}

func (g *genState) openKeys(kinds ...DestKind) []Dest {
	var l []Dest
	add := func(d Dest) {
		if _, ok := g.open[d.Key()]; ok {
			l = append(l, d)
		}
	}
	for _, k := range kinds {
		switch k {
		case File:
			for i := 0; i < g.h.NFiles; i++ {
				add(Dest{File, i})
			}
		case Sink:
			for i := range g.h.Sinks {
				add(Dest{Sink, i})
			}
		case Relay:
			for i := range g.h.Relays {
				add(Dest{Relay, i})
			}
		}
	}
	return l
}

func (g *genState) allDests() []Dest {
	l := []Dest{{Kind: Stdout}, {Kind: Stdout}}
	for i := 0; i < g.h.NFiles; i++ {
		l = append(l, Dest{File, i}, Dest{File, i})
	}
	for i := range g.h.Sinks {
		l = append(l, Dest{Sink, i})
	}
	if g.p.Children == "exposed" {
		for i := range g.h.Relays {
			l = append(l, Dest{Relay, i}, Dest{Relay, i})
		}
	}
	if g.p.Names && !g.p.Fault {
		l = append(l, Dest{Kind: Stderr})
	}
	return l
}

// Generate builds one history.  All choices come from rng.
func Generate(rng *rand.Rand, p Params) History {
	h := History{}
	g := &genState{rng: rng, p: p, h: &h, open: map[string]string{}, seq: map[string]int{}, budget: p.Budget}
	if g.budget == 0 {
		g.budget = 3 << 20
	}
	h.NFiles = rng.Intn(4)
	maxRelays := 2
	var modes []string // the output modes this history may switch to
	if p.CSV {
		// several distinct destinations: that is where a row can go astray
		if !p.Fault {
			h.NFiles = 2 + rng.Intn(4)
		}
		switch rng.Intn(3) {
		case 0:
			h.Mode, modes = ModeCSV, []string{ModeCSV, ModeNone}
		case 1:
			h.Mode, modes = ModeTSV, []string{ModeTSV, ModeNone}
		default:
			h.Mode, modes = []string{ModeCSV, ModeTSV, ModeNone}[rng.Intn(3)], []string{ModeCSV, ModeTSV, ModeNone}
		}
		if h.Mode != ModeNone {
			h.ModeVia = []string{"config", "config", "begin"}[rng.Intn(3)]
		}
		g.mode = h.Mode
		for _, m := range modes {
			if m == ModeCSV {
				maxRelays = 1 // "," is the terminator of relay 1's alphabet: a CSV history has relay 0 only
			}
		}
		if rng.Intn(3) != 0 {
			modes = nil // two thirds keep one mode for the whole run
		}
		if h.Mode == ModeNone && modes == nil {
			modes = []string{ModeCSV, ModeTSV, ModeNone}
		}
	}
	h.CRLF = p.CRLF
	if !p.Fault {
		for i, n := 0, rng.Intn(3); i < n; i++ {
			s := SinkSpec{Append: rng.Intn(3) == 0}
			if rng.Intn(3) == 0 {
				s.SleepMs = 15
			}
			if rng.Intn(2) == 0 {
				s.Exit = 1 + rng.Intn(100)
			}
			h.Sinks = append(h.Sinks, s)
		}
		if p.Children == "quiet" || p.Children == "exposed" {
			for i, n := 0, 1+rng.Intn(maxRelays); i < n; i++ {
				r := RelaySpec{}
				if rng.Intn(2) == 0 {
					r.Exit = 1 + rng.Intn(100)
				}
				h.Relays = append(h.Relays, r)
			}
		}
	}
	if p.Fault && h.NFiles == 0 && rng.Intn(2) == 0 {
		h.NFiles = 1
	}
	for i := 0; i < h.NFiles; i++ {
		if rng.Intn(2) == 0 {
			h.Pre = append(h.Pre, Dest{File, i}.Key())
		}
	}
	for i := range h.Sinks {
		if rng.Intn(2) == 0 {
			h.Pre = append(h.Pre, Dest{Sink, i}.Key())
		}
	}

	nops := 3 + rng.Intn(p.MaxOps-2)
	// Section cuts are fixed first so that the generator knows which ops sit in main.
	switch rng.Intn(4) {
	case 0: // everything in BEGIN
		h.CutA, h.CutB, h.NRec = nops, nops, 0
	case 1: // BEGIN + END
		h.CutA = rng.Intn(nops + 1)
		h.CutB, h.NRec = h.CutA, 0
	default:
		h.CutA = rng.Intn(nops/2 + 1)
		h.CutB = h.CutA + 1 + rng.Intn(nops-h.CutA)
		if h.CutB > nops {
			h.CutB = nops
		}
		h.NRec = 1 + rng.Intn(3)
		if h.CutB-h.CutA < h.NRec {
			h.NRec = h.CutB - h.CutA
		}
		if h.NRec == 0 {
			h.CutB = h.CutA
		}
	}
	inMain := func() bool { i := len(h.Ops); return i >= h.CutA && i < h.CutB }

	emit := func(op Op) { h.Ops = append(h.Ops, op) }
	closeOp := func(d Dest) {
		delete(g.open, d.Key())
		emit(Op{Kind: Close, Dest: d})
		if p.Snaps && d.Kind != Relay && rng.Intn(2) == 0 {
			emit(Op{Kind: Snap, Dest: d})
		}
	}
	// A quiet relay session: open, a few prints to it and to streams that are already open, close.
	quietSession := func() {
		d := Dest{Relay, rng.Intn(len(h.Relays))}
		if len(g.openKeys(Relay)) > 0 {
			return
		}
		n := 1 + rng.Intn(4)
		for i := 0; i < n; i++ {
			emit(g.print(d, false))
			if others := g.openKeys(File, Sink); len(others) > 0 && rng.Intn(3) == 0 {
				o := g.print(others[rng.Intn(len(others))], false)
				emit(o)
			}
			if others := g.openKeys(File, Sink); len(others) > 0 && rng.Intn(6) == 0 {
				emit(Op{Kind: Fflush, Dest: others[rng.Intn(len(others))]})
			}
		}
		if rng.Intn(8) != 0 {
			closeOp(d)
		}
	}

	for len(h.Ops) < nops {
		// While a quiet relay is left open, only quiet traffic may follow.
		if p.Children == "quiet" && len(g.openKeys(Relay)) > 0 {
			cands := append(g.openKeys(Relay), g.openKeys(File, Sink)...)
			emit(g.print(cands[rng.Intn(len(cands))], false))
			continue
		}
		if len(modes) > 0 && rng.Intn(10) == 0 {
			// switch the output mode in the middle of the run
			m := modes[rng.Intn(len(modes))]
			if m == g.mode {
				m = modes[(rng.Intn(len(modes))+1)%len(modes)]
			}
			g.mode = m
			if m == ModeNone {
				m = "none"
			}
			emit(Op{Kind: SetMode, Form: m})
			continue
		}
		r := rng.Intn(100)
		switch {
		case r < 52:
			ds := g.allDests()
			emit(g.print(ds[rng.Intn(len(ds))], inMain()))
		case r < 66:
			if op := g.openKeys(File, Sink, Relay); len(op) > 0 && rng.Intn(6) != 0 {
				closeOp(op[rng.Intn(len(op))])
			} else if ds := g.allDests(); len(ds) > 2 && !p.Fault {
				// close of a name that is not open (result not judged)
				emit(Op{Kind: Close, Dest: ds[2+rng.Intn(len(ds)-2)]})
				delete(g.open, h.Ops[len(h.Ops)-1].Dest.Key())
			}
		case r < 74:
			if op := g.openKeys(File, Sink, Relay); len(op) > 0 && rng.Intn(3) != 0 {
				emit(Op{Kind: Fflush, Dest: op[rng.Intn(len(op))]})
			} else {
				emit(Op{Kind: Fflush, Dest: Dest{Kind: Stdout}})
			}
		case r < 84:
			if p.Children != "none" && !p.Fault {
				g.seq["sys"]++
				n := g.size()
				if n > 100000 {
					n = 100000 // one argv string
				}
				emit(Op{Kind: System, Seq: g.seq["sys"], Size: n})
				// observe an open file right after system() returned: everything written to it
				// before the call must be there (flush before starting a process)
				if fl := g.openKeys(File); p.Snaps && len(fl) > 0 && rng.Intn(2) == 0 {
					emit(Op{Kind: Snap, Dest: fl[rng.Intn(len(fl))]})
				}
			}
		case r < 88:
			if !p.Fault {
				emit(Op{Kind: GetlineCmd, Status: rng.Intn(4) * 7})
			}
		case r < 93:
			if p.Children == "quiet" && len(h.Relays) > 0 {
				quietSession()
			} else if p.Snaps {
				if ds := g.allDests(); len(ds) > 2 {
					if d := ds[2+rng.Intn(len(ds)-2)]; d.Kind == File {
						emit(Op{Kind: Snap, Dest: d})
					}
				}
			}
		case r < 96:
			emit(Op{Kind: Exit, Status: []int{0, 0, 1, 3, 77}[rng.Intn(5)]})
		case r < 98:
			if !p.Fault {
				emit(Op{Kind: DivZero})
			}
		default:
			if op := g.openKeys(File, Sink, Relay); len(op) > 0 && !p.Fault {
				emit(Op{Kind: GetlineW, Dest: op[rng.Intn(len(op))]})
			}
		}
	}
	if p.Children == "quiet" && len(h.Relays) > 0 && len(g.openKeys(Relay)) == 0 && rng.Intn(2) == 0 {
		quietSession() // make sure most quiet histories do have a session
	}
	// The cuts were chosen against nops; sessions may have appended more ops: they go to END
	// (or to BEGIN when there is no END).
	if h.CutB >= nops && h.CutA >= nops {
		h.CutA, h.CutB = len(h.Ops), len(h.Ops)
	}
	// Wrap a run of ops lying in one block into a function (exit/errors inside a call).
	if rng.Intn(3) == 0 && len(h.Ops) > 1 {
		lo := rng.Intn(len(h.Ops))
		hi := lo + 1 + rng.Intn(4)
		if hi > len(h.Ops) {
			hi = len(h.Ops)
		}
		for hi > lo+1 && h.blockOf(hi-1) != h.blockOf(lo) {
			hi--
		}
		h.FuncLo, h.FuncHi = lo, hi
		// print0 needs $0 of the record and stays outside functions for clarity
		for i := lo; i < hi; i++ {
			if h.Ops[i].Form == FPrint0 {
				h.FuncLo, h.FuncHi = 0, 0
			}
		}
	}
	return h
}
