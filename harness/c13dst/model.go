package c13dst

import (
	"bytes"
	"fmt"
)

// ---- DST: the executable destination model -------------------------------------------------
//
// Written from the property text:
//   * everything written to a destination is delivered completely and in program order by the
//     time the destination is closed or the run ends — also when the run ends by exit or by a
//     run-time error;
//   * `>` truncates when the name is opened and only then; `>>` never truncates; one name is
//     one open stream until close() (so `>` and `>>` on an open name just append);
//   * close() of a command returns the command's exit status;
//   * output of children sharing stdout is neither lost nor corrupted, and it is ordered with
//     respect to the program's own stdout output wherever the program synchronises: a child
//     is started after everything the program wrote before (flush before exec), system() and
//     close() return after the child's output is complete (wait).

// Producers of the shared standard output.
const (
	ProdProg = iota
	ProdSys
	ProdRelay0
	ProdRelay1
	NProd
)

var ProdNames = [NProd]string{"program", "system-children", "relay0", "relay1"}

// Block is a run of one producer's bytes with the causal bounds the property implies:
// all bytes of the block come after the first After[q] bytes of producer q and before byte
// number Before[q] (0-based) of producer q, if that byte exists.  -1 = no bound.
type Block struct {
	Prod   int
	Lo, Hi int
	After  [NProd]int
	Before [NProd]int
	What   string
}

// SnapExpect is what a mid-run observation of a file may show.
type SnapExpect struct {
	Path    string // file name inside the work directory
	Exact   bool   // closed destination: content must equal Full
	Full    []byte // everything handed to the destination so far (after truncation rules)
	MinLen  int    // open file: content must be a prefix of Full at least this long (old content of a >> file)
	Missing bool   // the file must not exist (never opened, not pre-existing)
	// AfterSystem: taken right after system() returned, of a file that is open: system()
	// flushes every stream before it starts the child, so MinLen == len(Full).
	AfterSystem bool
}

// RecExpect is an expected result value (close status etc.).
type RecExpect struct {
	ID     int
	Value  int
	Judged bool // only command close statuses are pinned by the property
	What   string
}

type End struct {
	Kind   string // "normal" | "exit" | "error"
	Status int
	At     int // op index, -1 for normal
}

type Expect struct {
	Prods  [NProd][]byte // per-producer byte sequence on the shared stdout
	Blocks []Block
	Exact  []byte // != nil when no relay wrote: the one admissible stdout
	Files  map[string][]byte
	Snaps  map[int]SnapExpect
	Recs   []RecExpect
	End    End
	// ExposedRelay: non-empty when a relay command (a child that WRITES to the shared stdout)
	// ran while the interpreter itself used stdout (print, flush, starting another process).
	// ExposedCmd: non-empty when any `print | cmd` command — even a silent one — was running
	// while the stdout writer was used (written to or flushed).  With an Output that is not an
	// *os.File, os/exec gives every such command a goroutine that sits in the writer's ReadFrom
	// for the life of the command (bytes.Buffer: re-slices the buffer when the command ends;
	// bufio.Writer: a non-atomic `b.n += 0` that can undo a concurrent flush).
	ExposedRelay string
	ExposedCmd   string
	Events       []string // coverage: which rules of the property this history exercised
	Wrote        map[string]int
	// ProgExtra: bytes beyond a-z and "\n" that the PROGRAM itself writes to the shared stdout in
	// this history: the separator, the double quote and the leading space of CSV/TSV rows, "\r"
	// in CRLF newline mode.  (A history that can run in CSV mode has no relay 1, whose
	// terminator is the comma.)
	ProgExtra string
	// Stderr: the marked lines the program writes to "/dev/stderr", in order.
	Stderr []byte
	// CSVRowDests: destination keys that received at least one row written by print in CSV/TSV
	// output mode (the statements that mode changes).
	CSVRowDests map[string]int
}

type stream struct {
	dest   Dest
	path   string
	base   int // bytes that were in the file when it was opened (after truncation)
	sess   []byte
	block  int // relay: index into Blocks
	redir0 string
}

// OldContent is what a pre-existing destination file holds before the run.
func OldContent(key string) []byte { return []byte("OLD-" + key + "-old-content\nsecond old line\n") }

func filePath(d Dest) string {
	if d.Kind == Sink {
		return fmt.Sprintf("s%d.out", d.Idx)
	}
	return d.Key()
}

type Options struct {
	// GetlineWriterContinues selects the other admissible behaviour of getline from a name
	// open for output: the call returns a non-positive value and the program goes on (goawk
	// today ends the run with an error).  The property only says one name is one stream.
	GetlineWriterContinues bool
	// FailStdout: the stdout writer accepts FailAt bytes and then fails every write (fault
	// enumeration with an unbuffered writer): the print that hits the limit ends the run with
	// an error; everything before it — on every destination — is still delivered.
	FailStdout bool
	FailAt     int
}

// Run executes the model over a history.
func Run(h *History, opt Options) *Expect {
	e := &Expect{Files: map[string][]byte{}, Snaps: map[int]SnapExpect{}, Wrote: map[string]int{}, CSVRowDests: map[string]int{}}
	e.End = End{Kind: "normal", At: -1}
	mode := h.Mode
	extra := func(cs string) {
		for i := 0; i < len(cs); i++ {
			if !bytes.Contains([]byte(e.ProgExtra), []byte{cs[i]}) {
				e.ProgExtra += cs[i : i+1]
			}
		}
	}
	if h.CRLF {
		extra("\r")
	}
	for _, k := range h.Pre {
		for i := 0; i < h.NFiles; i++ {
			if (Dest{File, i}).Key() == k {
				e.Files[filePath(Dest{File, i})] = OldContent(k)
			}
		}
		for i := range h.Sinks {
			if (Dest{Sink, i}).Key() == k {
				e.Files[filePath(Dest{Sink, i})] = OldContent(k)
			}
		}
	}
	open := map[string]*stream{}
	ever := map[string]bool{}
	relayOpen := func() int {
		n := 0
		for _, s := range open {
			if s.dest.Kind == Relay {
				n++
			}
		}
		return n
	}
	var closedRelay [2]int // bytes of closed sessions per relay
	event := func(s string) { e.Events = append(e.Events, s) }
	cmdOpen := func() int {
		n := 0
		for _, s := range open {
			if s.dest.Kind == Relay || s.dest.Kind == Sink {
				n++
			}
		}
		return n
	}
	exposed := func(why string) {
		if e.ExposedRelay == "" {
			e.ExposedRelay = why
		}
	}
	// touchesStdout: the operation makes the interpreter itself use the stdout writer (its own
	// print, a flush of everything, starting a process or opening a file — both flush stdout
	// first).  If a relay is running at that moment, two parties write concurrently.
	touchesStdout := func(what string) {
		if relayOpen() > 0 {
			exposed(what + " while a relay command is running")
		}
		if cmdOpen() > 0 && e.ExposedCmd == "" {
			e.ExposedCmd = what + " while a command started by print | cmd is running"
		}
	}
	// writesStdout: bytes reach the stdout writer (from the program or from a child) while
	// `others` or more commands started by print|cmd are running.
	writesStdout := func(what string, others int) {
		if cmdOpen() > others && e.ExposedCmd == "" {
			e.ExposedCmd = what + " while a command started by print | cmd is running"
		}
	}
	counts := func() (c [NProd]int) {
		for i := range c {
			c[i] = len(e.Prods[i])
		}
		return
	}
	noBound := [NProd]int{-1, -1, -1, -1}
	exactOK := true
	addProg := func(b []byte) {
		e.Prods[ProdProg] = append(e.Prods[ProdProg], b...)
		e.Exact = append(e.Exact, b...)
	}
	closeStream := func(key string, atEnd bool) (status int, judged bool) {
		s := open[key]
		delete(open, key)
		switch s.dest.Kind {
		case File:
			if len(s.sess) > 65536 {
				event("file-session>64KiB")
			}
			return 0, false
		case Sink:
			spec := h.Sinks[s.dest.Idx]
			if spec.Append {
				e.Files[s.path] = append(e.Files[s.path], s.sess...)
				event("sink-append")
			} else {
				e.Files[s.path] = append([]byte{}, s.sess...)
				event("sink-truncate")
			}
			if spec.SleepMs > 0 {
				event("sink-slow-start")
			}
			if len(s.sess) > 65536 {
				event("sink-session>64KiB")
			}
			return spec.Exit, true
		case Relay:
			b := &e.Blocks[s.block]
			b.Hi = len(e.Prods[ProdRelay0+s.dest.Idx])
			if !atEnd {
				c := counts()
				b.Before = c
				b.Before[b.Prod] = -1
			}
			closedRelay[s.dest.Idx] = b.Hi
			if b.Hi-b.Lo > 65536 {
				event("relay-session>64KiB")
			}
			return h.Relays[s.dest.Idx].Exit, true
		}
		return 0, false
	}

	curRec := func(i int) string {
		b := h.blockOf(i)
		if b >= 1 && b <= h.NRec {
			return RecordText(b)
		}
		return ""
	}

	last := len(h.Ops)
	if !h.HasEND() && h.CutB < last {
		last = h.CutB // the END block is not part of the program
	}
loop:
	for i := 0; i < last; i++ {
		op := h.Ops[i]
		key := op.Dest.Key()
		switch op.Kind {
		case SetMode:
			old := mode
			mode = op.Form
			if mode == "none" {
				mode = ModeNone
			}
			if old != mode {
				event("output-mode-switch:" + old + ">" + mode)
			}
		case Print:
			line := LineBytes(op, curRec(i), mode, h.CRLF)
			e.Wrote[key] += len(line)
			if len(line) > 65536 {
				event("single-write>64KiB:" + string(op.Dest.Kind))
			}
			if mode != ModeNone && (op.Form == FPrint1 || op.Form == FPrint2 || op.Form == FPrint3Q) {
				e.CSVRowDests[key]++
				event(mode + "-row:" + string(op.Dest.Kind))
				if op.Form == FPrint3Q {
					event(mode + "-quoted-value")
				}
				if len(line) > 4096 {
					event(mode + "-row>4KiB") // larger than the cached CSV writer's buffer
				}
				if op.Dest.Kind == Stdout {
					extra(string([]byte{SepOf(mode)}) + "\" ")
				}
			}
			if h.CRLF && bytes.Contains(line, []byte("\r\n")) {
				event("crlf-newline:" + string(op.Dest.Kind))
			}
			if op.Dest.Kind == Stderr {
				touchesStdout("opening /dev/stderr") // goawk flushes stdout before it resolves the name
				e.Stderr = append(e.Stderr, line...)
				event("line-to-/dev/stderr")
				continue
			}
			if op.Dest.Kind == Stdout {
				if op.Name != "" {
					event("stdout-by-name:" + op.Name)
				}
				touchesStdout("print to stdout")
				writesStdout("print to stdout", 0)
				if have := len(e.Prods[ProdProg]); opt.FailStdout && have+len(line) > opt.FailAt {
					addProg(line[:opt.FailAt-have])
					e.End = End{Kind: "error", At: i}
					break loop
				}
				addProg(line)
				continue
			}
			s := open[key]
			if s == nil {
				s = &stream{dest: op.Dest, path: filePath(op.Dest), redir0: op.Redir}
				switch op.Dest.Kind {
				case File:
					touchesStdout("opening a file")
					_, existed := e.Files[s.path]
					if op.Redir == ">" {
						if ever[key] {
							event("reopen-after-close-truncates")
						} else if existed {
							event("open>-truncates-old-content")
						}
						e.Files[s.path] = []byte{}
					} else {
						if existed {
							event("open>>-keeps-old-content")
						}
						if ever[key] {
							event("reopen>>-after-close-appends")
						}
						if !existed {
							e.Files[s.path] = []byte{}
						}
					}
					s.base = len(e.Files[s.path])
				case Sink:
					touchesStdout("starting a command")
				case Relay:
					if relayOpen() > 0 {
						exposed("two relay commands running at once")
					}
					touchesStdout("starting a command")
					c := counts()
					b := Block{Prod: ProdRelay0 + op.Dest.Idx, Lo: c[ProdRelay0+op.Dest.Idx], Hi: -1, Before: noBound,
						What: fmt.Sprintf("session of relay %d opened at op %d", op.Dest.Idx, i)}
					b.After = [NProd]int{c[ProdProg], c[ProdSys], closedRelay[0], closedRelay[1]}
					b.After[b.Prod] = -1
					e.Blocks = append(e.Blocks, b)
					s.block = len(e.Blocks) - 1
					exactOK = false
				}
				open[key] = s
				ever[key] = true
			} else if op.Dest.Kind == File {
				if op.Redir == ">" {
					event("second>-on-open-name-does-not-truncate")
				}
				if op.Redir != s.redir0 {
					event("mixed>and>>-one-stream")
				}
			}
			s.sess = append(s.sess, line...)
			switch op.Dest.Kind {
			case File:
				e.Files[s.path] = append(e.Files[s.path], line...)
			case Relay:
				p := ProdRelay0 + op.Dest.Idx
				e.Prods[p] = append(e.Prods[p], line...)
				writesStdout("output of a relay command", 1)
			}
		case Close:
			if open[key] == nil || op.Dest.Kind == Stdout {
				e.Recs = append(e.Recs, RecExpect{ID: i, Value: -1, What: "close of a name that is not open"})
				continue
			}
			st, judged := closeStream(key, false)
			what := "close(" + key + ")"
			if judged && st != 0 {
				event("close-status-nonzero")
			}
			e.Recs = append(e.Recs, RecExpect{ID: i, Value: st, Judged: judged, What: what})
		case Fflush:
			if op.Dest.Kind == Stdout {
				touchesStdout("fflush()")
			} else if open[key] == nil {
				touchesStdout("fflush of a name that is not open (error message)")
			}
		case System:
			touchesStdout("system()")
			writesStdout("output of a system() child", 0)
			out := SysPayload(op)
			c := counts()
			b := Block{Prod: ProdSys, Lo: c[ProdSys], Hi: c[ProdSys] + len(out), What: fmt.Sprintf("output of system() at op %d", i)}
			b.After = [NProd]int{c[ProdProg], -1, closedRelay[0], closedRelay[1]}
			b.Before = [NProd]int{c[ProdProg], -1, c[ProdRelay0], c[ProdRelay1]}
			e.Blocks = append(e.Blocks, b)
			e.Prods[ProdSys] = append(e.Prods[ProdSys], out...)
			e.Exact = append(e.Exact, out...)
			e.Wrote["sys"] += len(out)
			if len(out) > 65536 {
				event("system-child>64KiB")
			}
		case GetlineCmd:
			touchesStdout("starting a command")
			e.Recs = append(e.Recs, RecExpect{ID: i, Value: op.Status, Judged: true, What: "close of an input command"})
			if op.Status != 0 {
				event("close-status-nonzero")
			}
		case GetlineW:
			if open[key] == nil {
				// not a writer at this point (the generator's bookkeeping and the model agree in
				// practice; kept total): reading a file that may not exist — value not judged
				e.Recs = append(e.Recs, RecExpect{ID: i, What: "getline from a name that is not open"})
				continue
			}
			if opt.GetlineWriterContinues {
				e.Recs = append(e.Recs, RecExpect{ID: i, What: "getline from a writer (returned)"})
				continue
			}
			e.End = End{Kind: "error", At: i}
			break loop
		case Exit:
			e.End = End{Kind: "exit", Status: op.Status, At: i}
			break loop
		case DivZero:
			e.End = End{Kind: "error", At: i}
			break loop
		case Snap:
			if op.Dest.Kind == Stdout {
				continue
			}
			path := filePath(op.Dest)
			content, exists := e.Files[path]
			s := open[key]
			switch {
			case s != nil && op.Dest.Kind == Sink:
				// a running sink command's file is in flux (old content, truncated, partly copied)
			case s != nil && i > 0 && h.Ops[i-1].Kind == System:
				e.Snaps[i] = SnapExpect{Path: path, Full: append([]byte{}, content...), MinLen: len(content), AfterSystem: true}
				event("file-observed-after-system()")
			case s != nil:
				e.Snaps[i] = SnapExpect{Path: path, Full: append([]byte{}, content...), MinLen: s.base}
			case !exists:
				e.Snaps[i] = SnapExpect{Path: path, Missing: true}
			default:
				e.Snaps[i] = SnapExpect{Path: path, Exact: true, Full: append([]byte{}, content...)}
			}
		}
	}
	// End of the run (normal, exit or error alike): every open destination is completed.
	if relayOpen() > 1 {
		exposed("two relay commands running at once")
	}
	nOpen := 0
	for key := range open {
		nOpen++
		closeStream(key, true)
	}
	if nOpen > 0 {
		event("open-at-end-of-run:" + e.End.Kind)
	}
	if !exactOK {
		e.Exact = nil
	} else if e.Exact == nil {
		e.Exact = []byte{}
	}
	return e
}
