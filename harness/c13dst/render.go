package c13dst

import (
	"bytes"
	"fmt"
	"strings"
)

// ---- alphabets and line content ------------------------------------------------------------
//
// Every producer that can reach the shared standard output writes over its own alphabet, so
// that the merged stream can be split again without ambiguity:
//
//	program itself   a-z and "\n"
//	system children  0-9 "#" ":"
//	relay 0 ("cat")  A-M and "."
//	relay 1 (" cat") N-Z and ","
//
// Files and sinks are private destinations; they use the program alphabet.

type Alphabet struct {
	Var   string // AWK variable holding the long repetition of Chars
	Chars string
	Term  string // line terminator inside the alphabet
}

var (
	AlphaProg   = Alphabet{"BL", "abcdefghijklmnopqrstuvwxyz", "\n"}
	AlphaSys    = Alphabet{"BD", "0123456789", ":"}
	AlphaRelay0 = Alphabet{"BA", "ABCDEFGHIJKLM", "."}
	AlphaRelay1 = Alphabet{"BN", "NOPQRSTUVWXYZ", ","}
)

func alphaOf(d Dest) Alphabet {
	if d.Kind == Relay {
		if d.Idx == 0 {
			return AlphaRelay0
		}
		return AlphaRelay1
	}
	return AlphaProg
}

func enc(n, width int, chars string) string {
	b := make([]byte, width)
	for i := width - 1; i >= 0; i-- {
		b[i] = chars[n%len(chars)]
		n /= len(chars)
	}
	return string(b)
}

// header is the self-describing start of a line: destination tag and the line counter.
func header(d Dest, seq int) string {
	switch d.Kind {
	case File:
		return fmt.Sprintf("f%d:%d:", d.Idx, seq)
	case Sink:
		return fmt.Sprintf("s%d:%d:", d.Idx, seq)
	case Relay:
		a := alphaOf(d)
		return a.Chars[:1] + enc(seq, 3, a.Chars) + a.Chars[len(a.Chars)-1:]
	case Stderr:
		return fmt.Sprintf("%s%d:", StderrMark, seq)
	}
	return "o" + enc(seq, 3, AlphaProg.Chars) + "x"
}

// StderrMark starts every line the program writes to "/dev/stderr".
const StderrMark = "@e:"

func sysHeader(seq int) string { return fmt.Sprintf("%04d#", seq) }

func padOff(a Alphabet, seq, idx int) int { return (seq*7 + idx*3) % len(a.Chars) }

// payloadBytes is the specification of a payload: the first n bytes of header + the
// alphabet repeated from a line-dependent offset.
func payloadBytes(a Alphabet, hdr string, off, n int) []byte {
	b := make([]byte, 0, n)
	for i := 0; i < n && i < len(hdr); i++ {
		b = append(b, hdr[i])
	}
	for i := len(b); i < n; i++ {
		b = append(b, a.Chars[(off+i-len(hdr))%len(a.Chars)])
	}
	return b
}

// Payload returns the payload bytes of a Print op (without terminator, OFS or ORS).
func Payload(op Op) []byte {
	a := alphaOf(op.Dest)
	return payloadBytes(a, header(op.Dest, op.Seq), padOff(a, op.Seq, op.Dest.Idx), op.Size)
}

// SysPayload returns what the child of a System op writes.
func SysPayload(op Op) []byte {
	return append(payloadBytes(AlphaSys, sysHeader(op.Seq), padOff(AlphaSys, op.Seq, 0), op.Size), AlphaSys.Term...)
}

// QValue is the middle argument of a print3q statement: a value that must be quoted in
// CSV/TSV output (an embedded double quote, a leading space, the separator itself).
func QValue(seq int, mode string) string {
	switch seq % 3 {
	case 0:
		return `q"q`
	case 1:
		return " lead"
	}
	return "s" + string(SepOf(mode)) + "s"
}

// SepOf is the field separator of an output mode.
func SepOf(mode string) byte {
	if mode == ModeTSV {
		return '\t'
	}
	return ','
}

// csvField is the RFC 4180 encoding of one field as goawk documents it for CSV/TSV output
// mode (docs/csv.md: what encoding/csv writes): a field is quoted when it contains the
// separator, a double quote, CR or LF, or starts with a space (or is `\.`); quotes inside are
// doubled.  Written here independently of encoding/csv.
func csvField(f []byte, sep byte) []byte {
	need := string(f) == `\.`
	for i, c := range f {
		if c == sep || c == '"' || c == '\r' || c == '\n' || (i == 0 && (c == ' ' || c == '\t' || c == '\v' || c == '\f')) {
			need = true
		}
	}
	if !need {
		return f
	}
	out := []byte{'"'}
	for _, c := range f {
		if c == '"' {
			out = append(out, '"')
		}
		out = append(out, c)
	}
	return append(out, '"')
}

// CSVRow is what `print f1, f2, …` writes in CSV/TSV output mode: the encoded fields joined
// by the separator and a newline (OFS and ORS are not used, docs/csv.md).
func CSVRow(mode string, fields ...[]byte) []byte {
	sep := SepOf(mode)
	var out []byte
	for i, f := range fields {
		if i > 0 {
			out = append(out, sep)
		}
		out = append(out, csvField(f, sep)...)
	}
	return append(out, '\n')
}

// LineBytes returns exactly what a Print op must add to its destination. rec is the text of
// the current input record (print0), mode the output mode in force, crlf the newline output mode.
func LineBytes(op Op, rec string, mode string, crlf bool) []byte {
	b := lineBytesLF(op, rec, mode)
	if crlf {
		b = bytes.ReplaceAll(b, []byte("\n"), []byte("\r\n"))
	}
	return b
}

func lineBytesLF(op Op, rec string, mode string) []byte {
	a := alphaOf(op.Dest)
	p := Payload(op)
	csv := mode == ModeCSV || mode == ModeTSV
	switch op.Form {
	case FPrint1:
		if csv {
			return CSVRow(mode, p)
		}
		return append(p, '\n')
	case FPrint2:
		h := len(p) / 2
		if csv {
			return CSVRow(mode, p[:h], p[h:])
		}
		out := append([]byte{}, p[:h]...)
		out = append(out, 'z') // OFS
		out = append(out, p[h:]...)
		return append(out, '\n')
	case FPrint3Q:
		h := len(p) / 2
		q := []byte(QValue(op.Seq, mode))
		if csv {
			return CSVRow(mode, p[:h], q, p[h:])
		}
		// (not generated outside CSV/TSV mode; total for replayed or hand-written histories)
		out := append([]byte{}, p[:h]...)
		out = append(out, 'z')
		out = append(out, q...)
		out = append(out, 'z')
		out = append(out, p[h:]...)
		return append(out, '\n')
	case FPrintf:
		return p
	case FPrintfT, FPrintORS:
		if op.Form == FPrintORS && csv {
			return append(p, '\n') // print ignores ORS in CSV/TSV mode (not generated)
		}
		return append(p, a.Term...)
	case FPrint0:
		return []byte(rec + "\n") // a bare print writes $0 and ORS in every output mode
	}
	panic("unknown form " + op.Form)
}

// ---- rendering -----------------------------------------------------------------------------

type renderer struct {
	h      *History
	need   map[string]int // big-string variable → required length
	sb     strings.Builder
	modeAt []string // output mode in force at each op (program order)
}

// ModesAt returns the output mode in force when each op executes (ops run in index order).
func (h *History) ModesAt() []string {
	l := make([]string, len(h.Ops))
	m := h.Mode
	for i, op := range h.Ops {
		if op.Kind == SetMode {
			m = op.Form
			if m == "none" {
				m = ModeNone
			}
		}
		l[i] = m
	}
	return l
}

func awkQuote(s string) string {
	var sb strings.Builder
	sb.WriteByte('"')
	for i := 0; i < len(s); i++ {
		switch c := s[i]; c {
		case '"', '\\':
			sb.WriteByte('\\')
			sb.WriteByte(c)
		case '\n':
			sb.WriteString("\\n")
		case '\t':
			sb.WriteString("\\t")
		default:
			sb.WriteByte(c)
		}
	}
	sb.WriteByte('"')
	return sb.String()
}

// sliceExpr renders an AWK expression whose value is payload[lo:hi] of (alphabet, header, off).
func (r *renderer) sliceExpr(a Alphabet, hdr string, off, lo, hi int) string {
	if hi-lo <= 48 {
		return awkQuote(string(payloadBytes(a, hdr, off, hi)[lo:]))
	}
	var parts []string
	if lo < len(hdr) {
		parts = append(parts, awkQuote(hdr[lo:]))
		lo = len(hdr)
	}
	start := off + lo - len(hdr) // 0-based index into the repetition
	start %= len(a.Chars)
	n := hi - lo
	if r.need[a.Var] < start+n {
		r.need[a.Var] = start + n
	}
	parts = append(parts, fmt.Sprintf("substr(%s, %d, %d)", a.Var, start+1, n))
	return strings.Join(parts, " ")
}

func (r *renderer) destVar(d Dest) string {
	switch d.Kind {
	case File:
		return fmt.Sprintf("F%d", d.Idx)
	case Sink:
		return fmt.Sprintf("S%d", d.Idx)
	case Relay:
		return fmt.Sprintf("R%d", d.Idx)
	case Stderr:
		return `"/dev/stderr"`
	}
	return `"/dev/null/unused"`
}

// SinkCommand / RelayCommand are the vsh command strings (W is the work directory).
func SinkCommand(i int, s SinkSpec, w string) string {
	c := ""
	if s.SleepMs > 0 {
		c += fmt.Sprintf("sleep:%d;", s.SleepMs)
	}
	if s.Append {
		c += "appendto:"
	} else {
		c += "catto:"
	}
	c += fmt.Sprintf("%s/s%d.out", w, i)
	if s.Exit != 0 {
		c += fmt.Sprintf(";exit:%d", s.Exit)
	}
	return c
}

func RelayCommand(i int, s RelaySpec) string {
	c := "cat"
	if i == 1 {
		c = " cat"
	}
	if s.Exit != 0 {
		c += fmt.Sprintf(";exit:%d", s.Exit)
	}
	return c
}

// cmdExpr renders the AWK expression for a vsh command string; wPlaceholder "\x00" marks where
// the variable W must be spliced in.
func (r *renderer) cmdExpr(cmd string) string {
	pieces := strings.Split(cmd, "\x00")
	var parts []string
	for i, p := range pieces {
		if i > 0 {
			parts = append(parts, "W")
		}
		if p != "" {
			parts = append(parts, awkQuote(p))
		}
	}
	e := strings.Join(parts, " ")
	if r.h.CLI {
		// the goawk binary always uses /bin/sh -c: run vsh explicitly, argument single-quoted
		return `VSH " '" ` + e + ` "'"`
	}
	return e
}

func (r *renderer) result(id int, expr string) string {
	if r.h.CLI {
		return fmt.Sprintf(`printf "%%d=%%d\n", %d, %s > RESF`, id, expr)
	}
	return fmt.Sprintf("rec(%d, %s)", id, expr)
}

func (r *renderer) op(i int) string {
	op := r.h.Ops[i]
	switch op.Kind {
	case Print:
		a := alphaOf(op.Dest)
		hdr, off := header(op.Dest, op.Seq), padOff(a, op.Seq, op.Dest.Idx)
		redir := ""
		if op.Dest.Kind != Stdout {
			redir = " " + op.Redir + " " + r.destVar(op.Dest)
		} else if op.Name != "" {
			redir = " " + op.Redir + " " + awkQuote(op.Name)
		}
		whole := r.sliceExpr(a, hdr, off, 0, op.Size)
		switch op.Form {
		case FPrint1:
			return "print " + whole + redir
		case FPrint2:
			h := op.Size / 2
			return "print " + r.sliceExpr(a, hdr, off, 0, h) + ", " + r.sliceExpr(a, hdr, off, h, op.Size) + redir
		case FPrint3Q:
			h := op.Size / 2
			// the output mode in force is a property of the run, not of the statement: the
			// separator-bearing value is rendered from the mode the model tracks (r.modeAt)
			return "print " + r.sliceExpr(a, hdr, off, 0, h) + ", " + awkQuote(QValue(op.Seq, r.modeAt[i])) + ", " + r.sliceExpr(a, hdr, off, h, op.Size) + redir
		case FPrintf:
			return `printf "%s", ` + whole + redir
		case FPrintfT:
			return "printf " + awkQuote("%s"+a.Term) + ", " + whole + redir
		case FPrintORS:
			return "ORS = " + awkQuote(a.Term) + "; print " + whole + redir + `; ORS = "\n"`
		case FPrint0:
			return "print" + redir
		}
	case Close:
		if op.Dest.Kind == Stdout {
			return r.result(i, `close("/nonexistent/never-opened")`)
		}
		return r.result(i, "close("+r.destVar(op.Dest)+")")
	case Fflush:
		if op.Dest.Kind == Stdout {
			return "fflush()"
		}
		return "fflush(" + r.destVar(op.Dest) + ")"
	case System:
		pay := r.sliceExpr(AlphaSys, sysHeader(op.Seq), padOff(AlphaSys, op.Seq, 0), 0, op.Size)
		if r.h.CLI {
			return `system(VSH " 'emitraw:" ` + pay + ` ":'")`
		}
		return `system("emitraw:" ` + pay + ` ":")`
	case GetlineW:
		return "gl = (getline ln < " + r.destVar(op.Dest) + "); " + r.result(i, "gl")
	case GetlineCmd:
		c := fmt.Sprintf("emitraw:in%d;exit:%d", i, op.Status)
		return "G = " + r.cmdExpr(c) + "; G | getline ln; " + r.result(i, "close(G)")
	case Exit:
		if op.Status == 0 {
			return "exit"
		}
		return fmt.Sprintf("exit %d", op.Status)
	case DivZero:
		return "zz = 1 / zero"
	case Snap:
		if r.h.CLI {
			return "# (snap: API mode only)"
		}
		return fmt.Sprintf("snap(%d)", i)
	case SetMode:
		if op.Form == "none" {
			return `OUTPUTMODE = ""`
		}
		return "OUTPUTMODE = " + awkQuote(op.Form)
	}
	panic("render: unknown op")
}

// FirstStop returns the index of the first op that can end the run (exit, run-time error,
// getline from a writer), or -1.
func (h *History) FirstStop() int {
	for i, op := range h.Ops {
		if op.Kind == Exit || op.Kind == DivZero || op.Kind == GetlineW {
			return i
		}
	}
	return -1
}

// HasEND reports whether the rendered program has an END block: it is left out when the run
// can end before END is reached, so that the "END still runs after exit" rule of AWK (C11's
// business) never enters this model.
func (h *History) HasEND() bool {
	if h.CutB >= len(h.Ops) {
		return false
	}
	t := h.FirstStop()
	return t < 0 || t >= h.CutB
}

// Render returns the AWK program of a history.  It refers to the variables W (work directory)
// and, in CLI mode, VSH (path of the fake shell) which the runner passes with -v / Config.Vars.
func Render(h *History) string {
	r := &renderer{h: h, need: map[string]int{}, modeAt: h.ModesAt()}
	// Ops are rendered first (that computes the big strings needed).
	lines := make([]string, len(h.Ops))
	for i := range h.Ops {
		lines[i] = r.op(i)
	}
	var sb strings.Builder
	sb.WriteString("function big(a, n,   s) { s = a; while (length(s) < n) s = s s; return s }\n")
	block := func(lo, hi int, indent string) {
		for i := lo; i < hi; i++ {
			if h.FuncHi > h.FuncLo && i == h.FuncLo {
				sb.WriteString(indent + "fw()\n")
			}
			if i >= h.FuncLo && i < h.FuncHi {
				continue
			}
			sb.WriteString(indent + lines[i] + "\n")
		}
	}
	if h.FuncHi > h.FuncLo {
		sb.WriteString("function fw() {\n")
		for i := h.FuncLo; i < h.FuncHi; i++ {
			sb.WriteString("\t" + lines[i] + "\n")
		}
		sb.WriteString("}\n")
	}
	sb.WriteString("BEGIN {\n\tOFS = \"z\"\n")
	if h.Mode != ModeNone && h.ModeVia == "begin" {
		sb.WriteString("\tOUTPUTMODE = " + awkQuote(h.Mode) + "\n")
	}
	if h.CLI {
		sb.WriteString("\tRESF = W \"/results\"; printf \"\" > RESF\n")
	}
	for i := 0; i < h.NFiles; i++ {
		fmt.Fprintf(&sb, "\tF%d = W \"/f%d\"\n", i, i)
	}
	for i, s := range h.Sinks {
		fmt.Fprintf(&sb, "\tS%d = %s\n", i, r.cmdExpr(SinkCommand(i, s, "\x00")))
	}
	for i, s := range h.Relays {
		fmt.Fprintf(&sb, "\tR%d = %s\n", i, r.cmdExpr(RelayCommand(i, s)))
	}
	for _, a := range []Alphabet{AlphaProg, AlphaSys, AlphaRelay0, AlphaRelay1} {
		if n := r.need[a.Var]; n > 0 {
			fmt.Fprintf(&sb, "\t%s = big(%s, %d)\n", a.Var, awkQuote(a.Chars), n)
		}
	}
	block(0, h.CutA, "\t")
	sb.WriteString("}\n")
	for rec := 1; rec <= h.NRec; rec++ {
		lo, hi := -1, -1
		for i := h.CutA; i < h.CutB; i++ {
			if h.blockOf(i) == rec {
				if lo < 0 {
					lo = i
				}
				hi = i + 1
			}
		}
		if lo < 0 {
			continue
		}
		fmt.Fprintf(&sb, "NR == %d {\n", rec)
		block(lo, hi, "\t")
		sb.WriteString("}\n")
	}
	if h.HasEND() {
		sb.WriteString("END {\n")
		block(h.CutB, len(h.Ops), "\t")
		sb.WriteString("}\n")
	}
	return sb.String()
}

// StdinText is the input the program is given: NRec records.
func (h *History) StdinText() string {
	var sb strings.Builder
	for r := 1; r <= h.NRec; r++ {
		sb.WriteString(RecordText(r) + "\n")
	}
	return sb.String()
}
