package c13dst

import (
	"fmt"
	"strings"
)

// ---- commands that give up their standard input early ----------------------------------------
//
// A deterministic scenario family for the clauses "close() reports the command's exit status"
// and (mechanism) "close flushes, closes and waits" / "close everything at end of run", in the
// situation where the final flush into the command's stdin FAILS: the `print | cmd` stream
// still holds buffered data when it is closed (explicitly, or at the end of the run), and the
// command has already closed its standard input (or has exited).  The commands are run by the
// real /bin/sh.
//
// Order is enforced by a marker-file handshake, never by wall-clock time: the command creates
// MARK after it has given up its input; the program waits for MARK through
// `HS | getline` (starting an INPUT command flushes standard output only, not the stream under
// test), then prints more rows (they stay in the buffer) and closes / ends.  After giving up
// its input the command sleeps a little and only then writes RESULT in two steps and exits
// with a chosen status — so an interpreter that does not wait for it is seen reading an
// absent or incomplete RESULT right after close() returned (or after the run returned).

type EarlyClose struct {
	// Stdin: how the command gives up its input: "close" (exec 0<&-), "devnull" (exec 0</dev/null),
	// "read1" (reads the first line — the program fflushes it — records it, then exec 0<&-),
	// "exit" (writes RESULT and exits at once, without reading), "drain" (control: cat > DRAIN
	// reads everything to the end; no handshake).
	Stdin string `json:"stdin"`
	// Ending: "close" (r = close(cmd), RESULT read at once with getline), "end" (no close: the
	// run ends normally), "exit" (exit ProgExit), "error" (run-time error) — RESULT is read by the
	// harness as soon as Execute / the process has returned.
	Ending   string `json:"ending"`
	Exit     int    `json:"exit"`      // the command's exit status
	ProgExit int    `json:"prog_exit"` // Ending "exit"
	Before   int    `json:"rows_before"`
	After    int    `json:"rows_after"`
	Form     string `json:"form"` // "print" | "print2" | "printf"
	Echo     bool   `json:"echo"` // the command also writes to the SHARED standard output
	SleepMs  int    `json:"sleep_ms"`
	Mode     string `json:"mode,omitempty"` // output mode (Config.OutputMode / -o)
}

const (
	EarlyResult   = "first\nlast\n"
	EarlyEchoText = "0001#424242:" // system-children alphabet
)

func (s *EarlyClose) handshake() bool { return s.Stdin != "drain" }

// Row is what the i-th (1-based) row statement hands to the command.
func (s *EarlyClose) Row(i int) []byte {
	a, b := fmt.Sprintf("row%dx", i), fmt.Sprintf("y%dend", i)
	switch s.Form {
	case "print2":
		if s.Mode != ModeNone {
			return CSVRow(s.Mode, []byte(a), []byte(b))
		}
		return []byte(a + "z" + b + "\n")
	case "printf":
		return []byte(a + b + "\n")
	}
	return []byte(a + b + "\n") // one-argument print: the same bytes in every output mode (no quoting needed)
}

func (s *EarlyClose) rowStmt(i int) string {
	a, b := fmt.Sprintf("row%dx", i), fmt.Sprintf("y%dend", i)
	switch s.Form {
	case "print2":
		return fmt.Sprintf(`print "%s", "%s" | C`, a, b)
	case "printf":
		return fmt.Sprintf(`printf "%%s\n", "%s%s" | C`, a, b)
	}
	return fmt.Sprintf(`print "%s%s" | C`, a, b)
}

// Command is the shell command text with the work directory spliced in by the AWK program
// (the rendered program concatenates W); here W is shown as $W for the reader.
func (s *EarlyClose) commandExpr() string {
	q := func(name string) string { return `'" W "/` + name + `'` }
	sleep := fmt.Sprintf("sleep %d.%03d; ", s.SleepMs/1000, s.SleepMs%1000)
	echo := ""
	if s.Echo {
		echo = "printf %s '" + EarlyEchoText + "'; "
	}
	result := "echo first > " + q("RESULT") + "; sleep 0.02; echo last >> " + q("RESULT") + "; "
	exit := fmt.Sprintf("exit %d", s.Exit)
	mark := ": > " + q("MARK") + "; "
	var c string
	switch s.Stdin {
	case "close":
		c = "exec 0<&-; " + mark + sleep + echo + result + exit
	case "devnull":
		c = "exec 0</dev/null; " + mark + sleep + echo + result + exit
	case "read1":
		c = "read x; echo \\\"$x\\\" > " + q("GOT") + "; exec 0<&-; " + mark + sleep + echo + result + exit
	case "exit":
		c = echo + "echo first > " + q("RESULT") + "; echo last >> " + q("RESULT") + "; " + mark + exit
	case "drain":
		c = "cat > " + q("DRAIN") + "; " + sleep + echo + result + exit
	default:
		panic("early: unknown stdin kind " + s.Stdin)
	}
	return `"` + c + `"`
}

// Render returns the AWK program.  It refers to the variable W (work directory).
func (s *EarlyClose) Render() string {
	var sb strings.Builder
	sb.WriteString("BEGIN {\n\tOFS = \"z\"\n\tRESF = W \"/results\"; printf \"\" > RESF\n\tRES = W \"/RESULT\"\n")
	sb.WriteString("\tC = " + s.commandExpr() + "\n")
	if s.handshake() {
		sb.WriteString("\tHS = \"i=0; while [ ! -e '\" W \"/MARK' ] && [ $i -lt 6000 ]; do sleep 0.01; i=$((i+1)); done; if [ -e '\" W \"/MARK' ]; then echo ok; else echo timeout; fi\"\n")
	}
	sb.WriteString("\tprint \"a\"\n")
	n := 0
	for i := 0; i < s.Before; i++ {
		n++
		sb.WriteString("\t" + s.rowStmt(n) + "\n")
		if i == 0 && s.Stdin == "read1" {
			sb.WriteString("\tfflush(C)\n")
		}
	}
	if s.handshake() {
		// starting an input command flushes standard output and the error stream only
		sb.WriteString("\ths = \"\"; HS | getline hs; close(HS)\n")
		sb.WriteString("\tif (hs != \"ok\") { printf \"hs=timeout\\n\" > RESF; exit 9 }\n")
	}
	for i := 0; i < s.After; i++ {
		n++
		sb.WriteString("\t" + s.rowStmt(n) + "\n")
	}
	switch s.Ending {
	case "close":
		sb.WriteString("\tr = close(C)\n")
		sb.WriteString("\tl1 = \"\"; l2 = \"\"; g1 = (getline l1 < RES); g2 = (getline l2 < RES)\n")
		sb.WriteString("\tprintf \"close=%d\\ng1=%d\\ng2=%d\\nl1=%s\\nl2=%s\\n\", r, g1, g2, l1, l2 > RESF\n")
		sb.WriteString("\tprint \"b\"\n")
	case "end":
		sb.WriteString("\tprint \"b\"\n")
	case "exit":
		sb.WriteString("\tprint \"b\"\n")
		fmt.Fprintf(&sb, "\texit %d\n", s.ProgExit)
	case "error":
		sb.WriteString("\tprint \"b\"\n\tzz = 1 / zero\n")
	default:
		panic("early: unknown ending " + s.Ending)
	}
	sb.WriteString("}\n")
	return sb.String()
}

// EarlyExpect is what the property pins for a scenario.
type EarlyExpect struct {
	Stdout *Expect // conservation + causal order on the shared stdout
	// CloseStatus: Ending "close": the value close() must return (the command's exit status).
	CloseStatus int
	// Result: content of RESULT that must be there when observed (by the program right after
	// close(); by the harness right after the run returned).
	Result string
	// Drain / Got: what the command must have received ("drain": all rows; "read1": the first row).
	Drain, Got []byte
	End        End
}

func (s *EarlyClose) Expect() *EarlyExpect {
	x := &EarlyExpect{CloseStatus: s.Exit, Result: EarlyResult}
	e := &Expect{Files: map[string][]byte{}, Snaps: map[int]SnapExpect{}, Wrote: map[string]int{}}
	e.Prods[ProdProg] = []byte("a\nb\n")
	if s.Echo {
		e.Prods[ProdSys] = []byte(EarlyEchoText)
		b := Block{Prod: ProdSys, Lo: 0, Hi: len(EarlyEchoText), What: "output of the command"}
		// started after "a\n" had been written (flush before starting a process)
		b.After = [NProd]int{2, -1, -1, -1}
		b.Before = [NProd]int{-1, -1, -1, -1}
		if s.Ending == "close" {
			b.Before[ProdProg] = 2 // close() waited: "b" comes after the command's output
		}
		e.Blocks = append(e.Blocks, b)
	}
	x.Stdout = e
	n := s.Before + s.After
	switch s.Stdin {
	case "drain":
		for i := 1; i <= n; i++ {
			x.Drain = append(x.Drain, s.Row(i)...)
		}
	case "read1":
		r := s.Row(1)
		x.Got = r // `read x; echo "$x"`: the line without and again with its newline
	}
	switch s.Ending {
	case "close", "end":
		x.End = End{Kind: "normal", At: -1}
	case "exit":
		x.End = End{Kind: "exit", Status: s.ProgExit, At: -1}
	case "error":
		x.End = End{Kind: "error", At: -1}
	}
	return x
}

// ---- fixed real-shell scenarios ------------------------------------------------------------

// Fixed is a hand-written program over destinations the generated histories do not reach with
// the fake shell (a command writing to the error stream, many destinations at once, ORS/OFS
// variations), with the exact bytes the property implies for every destination.
type Fixed struct {
	Name   string            `json:"name"`
	Prog   string            `json:"program"` // refers to W
	Mode   string            `json:"mode,omitempty"`
	CRLF   bool              `json:"crlf,omitempty"`
	Stdout string            `json:"stdout"`
	Stderr string            `json:"stderr_marked_lines"`
	Files  map[string]string `json:"files"`
}

// FixedScenarios returns the table.  Program output to stdout uses letters only and children
// write over the digits alphabet, as everywhere in this package.
func FixedScenarios() []Fixed {
	var l []Fixed
	// 1. a command whose output is the error stream; /dev/stderr as a file name
	l = append(l, Fixed{
		Name:   "cmd-to-stderr-closed",
		Prog:   `BEGIN { c = "cat 1>&2"; print "@e:1:x" | c; print "@e:2:y" | c; r = close(c); print "a"; print "@e:3:z" > "/dev/stderr"; printf "%s\n", "@e:4:w" >> "/dev/stderr"; print "b"; if (r != 0) print "bad" }`,
		Stdout: "a\nb\n", Stderr: "@e:1:x\n@e:2:y\n@e:3:z\n@e:4:w\n",
	})
	l = append(l, Fixed{
		Name:   "cmd-to-stderr-open-at-end",
		Prog:   `BEGIN { print "a"; c = "cat 1>&2; exit 4"; print "@e:1:x" | c; print "b" }`,
		Stdout: "a\nb\n", Stderr: "@e:1:x\n",
	})
	// 2. names of standard output mixed with plain print/printf and a synchronous child
	l = append(l, Fixed{
		Name:   "stdout-names-and-system",
		Prog:   `BEGIN { print "a"; print "b" > "/dev/stdout"; printf "c\n"; print "d" > "-"; system("printf 1:"); print "e" >> "/dev/stdout"; printf "%s\n", "f" > "-"; system("printf 2:"); print "g" }`,
		Stdout: "a\nb\nc\nd\n1:e\nf\n2:g\n",
	})
	// 3. ORS / OFS variations on several destinations
	l = append(l, Fixed{
		Name: "ors-ofs-variations",
		Prog: `BEGIN { F = W "/f0"; G = W "/f1"; c = "cat > '" W "/s0.out'"
	OFS = "--"; ORS = "\r\n"; print "ab", "cd" > F; print "ab", "cd" | c; print "ab", "cd"
	ORS = ""; print "x" > F; print "x" > G; print "x" | c; print "x"
	OFS = ""; ORS = "\n\n"; print "p", "q", "r" > F; print "p", "q", "r" | c; print "p", "q", "r"
	$0 = "u v w"; OFS = "::"; ORS = "\n"; $1 = $1; print > G; print; print $1, $3 > G }`,
		Stdout: "ab--cd\r\nxpqr\n\nu::v::w\n",
		Files:  map[string]string{"f0": "ab--cd\r\nxpqr\n\n", "f1": "xu::v::w\nu::w\n", "s0.out": "ab--cd\r\nxpqr\n\n"},
	})
	// 4. many destinations at once, in every output mode
	for _, mode := range []string{ModeNone, ModeCSV, ModeTSV} {
		for _, crlf := range []bool{false, true} {
			if crlf && mode == ModeTSV {
				continue
			}
			f := Fixed{Name: "many-destinations", Mode: mode, CRLF: crlf, Files: map[string]string{}}
			f.Name += ":" + map[string]string{ModeNone: "default", ModeCSV: "csv", ModeTSV: "tsv"}[mode]
			if crlf {
				f.Name += ":crlf"
			}
			const nf, nc, rounds = 12, 3, 4
			var sb strings.Builder
			sb.WriteString("BEGIN {\n\tOFS = \"z\"\n")
			for i := 0; i < nf; i++ {
				fmt.Fprintf(&sb, "\tD[%d] = W \"/m%d\"\n", i, i)
			}
			for i := 0; i < nc; i++ {
				fmt.Fprintf(&sb, "\tK[%d] = \"cat > '\" W \"/k%d.out'\"\n", i, i)
			}
			fmt.Fprintf(&sb, "\tfor (r = 0; r < %d; r++) {\n", rounds)
			fmt.Fprintf(&sb, "\t\tfor (i = 0; i < %d; i++) print \"m\" i, \"r \" r, \"q\\\"\" i > D[i]\n", nf)
			fmt.Fprintf(&sb, "\t\tfor (i = 0; i < %d; i++) print \"k\" i, \"r \" r | K[i]\n", nc)
			sb.WriteString("\t\tprint \"o\", \"r\"\n")
			fmt.Fprintf(&sb, "\t\tfor (i = 0; i < %d; i += 2) printf \"%%s\\n\", \"pf\" i >> D[i]\n", nf)
			sb.WriteString("\t}\n")
			fmt.Fprintf(&sb, "\tfor (i = 0; i < %d; i += 3) close(D[i])\n\tclose(K[0])\n", nf)
			fmt.Fprintf(&sb, "\tfor (i = 0; i < %d; i += 3) print \"again\", i >> D[i]\n", nf)
			sb.WriteString("}\n")
			f.Prog = sb.String()
			row := func(fields ...string) string {
				var bs [][]byte
				for _, x := range fields {
					bs = append(bs, []byte(x))
				}
				if mode != ModeNone {
					return string(CSVRow(mode, bs...))
				}
				return strings.Join(fields, "z") + "\n"
			}
			files := map[string]*strings.Builder{}
			get := func(n string) *strings.Builder {
				if files[n] == nil {
					files[n] = &strings.Builder{}
				}
				return files[n]
			}
			var out strings.Builder
			for r := 0; r < rounds; r++ {
				for i := 0; i < nf; i++ {
					get(fmt.Sprintf("m%d", i)).WriteString(row(fmt.Sprintf("m%d", i), fmt.Sprintf("r %d", r), fmt.Sprintf("q\"%d", i)))
				}
				for i := 0; i < nc; i++ {
					get(fmt.Sprintf("k%d.out", i)).WriteString(row(fmt.Sprintf("k%d", i), fmt.Sprintf("r %d", r)))
				}
				out.WriteString(row("o", "r"))
				for i := 0; i < nf; i += 2 {
					get(fmt.Sprintf("m%d", i)).WriteString(fmt.Sprintf("pf%d\n", i))
				}
			}
			for i := 0; i < nf; i += 3 {
				get(fmt.Sprintf("m%d", i)).WriteString(row("again", fmt.Sprint(i)))
			}
			fix := func(s string) string {
				if crlf {
					return strings.ReplaceAll(s, "\n", "\r\n")
				}
				return s
			}
			for n, b := range files {
				f.Files[n] = fix(b.String())
			}
			f.Stdout = fix(out.String())
			l = append(l, f)
		}
	}
	// 5. CSV rows with a value that needs quotes, alternating between stdout, two files and a pipe
	// (the witness shape of a cached CSV writer bound to the wrong destination)
	for _, mode := range []string{ModeCSV, ModeTSV} {
		sep := string(SepOf(mode))
		l = append(l, Fixed{
			Name: "csv-alternating-destinations:" + mode, Mode: mode,
			Prog: `BEGIN { F = W "/f0"; G = W "/f1"; c = "cat > '" W "/s0.out'"
	print "a", "b c" > F; print "c", "d` + sep + `e" > G; print "k", "l\"m" | c; print "o", " p"
	print "e", "f g" > F; print "g", "h i" > G; print "q", "r" | c; print "s", "t"
	close(F); close(c); print "u", "v" > G; print "w", "x" }`,
			Stdout: "o" + sep + "\" p\"\ns" + sep + "t\nw" + sep + "x\n",
			Files: map[string]string{
				"f0":     "a" + sep + "b c\ne" + sep + "f g\n",
				"f1":     "c" + sep + "\"d" + sep + "e\"\ng" + sep + "h i\nu" + sep + "v\n",
				"s0.out": "k" + sep + "\"l\"\"m\"\nq" + sep + "r\n",
			},
		})
	}
	return l
}

// ---- slow consumer of standard output ------------------------------------------------------

// SlowTail is the number of final stdout bytes that the slow reader / slow writer of the
// "slow consumer" family takes slowly (the head is consumed at full speed).
const SlowTail = 100000

// SlowHistory builds variant v (0..5) of the hand-made histories of the "slow consumer of
// standard output" family: a child process (a system() child or a `print | "cat"` relay)
// produces about 100 KB on the SHARED standard output just before the run ends, or just before
// the program goes on.  jitter (0..999) varies the sizes so that cases are distinct.
func SlowHistory(v, jitter int, cli bool) History {
	h := History{CLI: cli}
	seq := map[string]int{}
	out := func(n int) Op {
		seq["out"]++
		return Op{Kind: Print, Dest: Dest{Kind: Stdout}, Form: FPrint1, Seq: seq["out"], Size: n}
	}
	sys := func(n int) Op {
		seq["sys"]++
		return Op{Kind: System, Seq: seq["sys"], Size: n}
	}
	relay := func(n int) Op {
		seq["r0"]++
		return Op{Kind: Print, Dest: Dest{Relay, 0}, Redir: "|", Form: FPrintfT, Seq: seq["r0"], Size: n}
	}
	big := SlowTail - jitter
	switch v % 6 {
	case 0: // a system() child is the last thing the program does
		h.Ops = []Op{out(20 + jitter), sys(big)}
	case 1: // … and the run ends by exit n
		h.Ops = []Op{out(3000 + jitter), sys(big), {Kind: Exit, Status: 3}}
	case 2: // output of the program follows the children
		h.Ops = []Op{out(10 + jitter), sys(50000 + jitter), out(5000 + jitter), sys(big), out(30)}
	case 3: // a relay still open at the end of the run
		h.Relays = []RelaySpec{{Exit: 0}}
		h.Ops = []Op{out(40 + jitter), relay(big), relay(big), relay(big)}
	case 4: // a relay closed explicitly (status judged), program output afterwards
		h.Relays = []RelaySpec{{Exit: 7}}
		h.Ops = []Op{out(40 + jitter), relay(big), relay(big), {Kind: Close, Dest: Dest{Relay, 0}}, out(25)}
	case 5: // relay, then a system() child, then a run-time error
		h.Relays = []RelaySpec{{Exit: 0}}
		h.Ops = []Op{out(40 + jitter), relay(big), {Kind: Close, Dest: Dest{Relay, 0}}, sys(big), {Kind: DivZero}}
	}
	h.CutA, h.CutB = len(h.Ops), len(h.Ops)
	return h
}
