package c13dst

import (
	"bytes"
	"fmt"
)

// ProducerOf maps a byte of the shared stdout to its producer (-1: belongs to nobody).
func ProducerOf(b byte) int {
	switch {
	case b >= 'a' && b <= 'z', b == '\n':
		return ProdProg
	case b >= '0' && b <= '9', b == '#', b == ':':
		return ProdSys
	case b >= 'A' && b <= 'M', b == '.':
		return ProdRelay0
	case b >= 'N' && b <= 'Z', b == ',':
		return ProdRelay1
	}
	return -1
}

// Mismatch describes the first disagreement between an observed byte string and the model.
type Mismatch struct {
	What     string // short kind: "conservation", "order", "foreign-byte", "exact"
	Detail   string
	Expected string
	Observed string
}

func around(b []byte, i int) string {
	lo, hi := i-40, i+40
	if lo < 0 {
		lo = 0
	}
	if hi > len(b) {
		hi = len(b)
	}
	return fmt.Sprintf("…%q…", b[lo:hi])
}

// DiffBytes describes where two byte strings first differ.
func DiffBytes(want, got []byte) string {
	n := len(want)
	if len(got) < n {
		n = len(got)
	}
	i := 0
	for i < n && want[i] == got[i] {
		i++
	}
	return fmt.Sprintf("lengths want=%d got=%d, first difference at offset %d: want %s got %s", len(want), len(got), i, around(want, i), around(got, i))
}

// CheckStdout compares the observed shared stdout with the model: (1) no byte outside every
// alphabet, (2) conservation — the stream filtered by each producer's alphabet equals exactly
// what that producer wrote (no loss, duplication or reordering inside a producer), (3) the
// causal bounds of every block.  When no relay took part the merged stream is fully
// determined and compared byte for byte.
func CheckStdout(e *Expect, got []byte) *Mismatch {
	if e.Exact != nil {
		if bytes.Equal(e.Exact, got) {
			return nil
		}
		// fall through to the finer checks for a better message; "exact" is the verdict if they pass
	}
	var parts [NProd][]byte
	var pos [NProd][]int32
	for i, b := range got {
		p := ProducerOf(b)
		if bytes.IndexByte([]byte(e.ProgExtra), b) >= 0 {
			p = ProdProg // CSV/TSV separator, quote, leading space; "\r" of CRLF newline mode
		}
		if p < 0 {
			return &Mismatch{What: "foreign-byte", Detail: fmt.Sprintf("byte %q at offset %d of stdout belongs to no producer", b, i), Observed: around(got, i)}
		}
		parts[p] = append(parts[p], b)
		pos[p] = append(pos[p], int32(i))
	}
	for p := 0; p < NProd; p++ {
		if !bytes.Equal(parts[p], e.Prods[p]) {
			return &Mismatch{What: "conservation", Detail: fmt.Sprintf("bytes of producer %q in the merged stdout differ from what it wrote: %s", ProdNames[p], DiffBytes(e.Prods[p], parts[p])),
				Expected: string(clipB(e.Prods[p], 300)), Observed: string(clipB(parts[p], 300))}
		}
	}
	for _, b := range e.Blocks {
		if b.Hi <= b.Lo {
			continue
		}
		first, last := pos[b.Prod][b.Lo], pos[b.Prod][b.Hi-1]
		for q := 0; q < NProd; q++ {
			if a := b.After[q]; a > 0 && q != b.Prod {
				if pos[q][a-1] > first {
					return &Mismatch{What: "order", Detail: fmt.Sprintf("%s: its first byte (stdout offset %d) precedes byte %d of producer %q (offset %d), which was written before the child was started",
						b.What, first, a-1, ProdNames[q], pos[q][a-1]), Observed: around(got, int(first))}
				}
			}
			if bf := b.Before[q]; bf >= 0 && q != b.Prod && bf < len(pos[q]) {
				if pos[q][bf] < last {
					return &Mismatch{What: "order", Detail: fmt.Sprintf("%s: its last byte (stdout offset %d) follows byte %d of producer %q (offset %d), which was written after the program had waited for the child",
						b.What, last, bf, ProdNames[q], pos[q][bf]), Observed: around(got, int(last))}
				}
			}
		}
	}
	if e.Exact != nil {
		return &Mismatch{What: "exact", Detail: DiffBytes(e.Exact, got)}
	}
	return nil
}

func clipB(b []byte, n int) []byte {
	if len(b) > n {
		return b[:n]
	}
	return b
}

// CheckSnap compares a mid-run observation of a file with the model.
func CheckSnap(s SnapExpect, content []byte, exists bool) string {
	switch {
	case s.Missing:
		if exists {
			return fmt.Sprintf("file %s exists (%d bytes) although nothing opened it", s.Path, len(content))
		}
	case s.Exact:
		if !exists {
			return fmt.Sprintf("file %s does not exist after its destination was closed", s.Path)
		}
		if !bytes.Equal(content, s.Full) {
			return fmt.Sprintf("file %s after close(): %s", s.Path, DiffBytes(s.Full, content))
		}
	default:
		if !exists {
			return fmt.Sprintf("file %s does not exist although it is open for output", s.Path)
		}
		if s.AfterSystem && !bytes.Equal(content, s.Full) {
			return fmt.Sprintf("file %s observed right after system() returned lacks output written before the call (no flush before the child was started): %s", s.Path, DiffBytes(s.Full, content))
		}
		if len(content) < s.MinLen || !bytes.HasPrefix(s.Full, content) {
			return fmt.Sprintf("file %s while open is not (old content +) a prefix of what was written: %s", s.Path, DiffBytes(s.Full, content))
		}
	}
	return ""
}

// CheckStderr compares the marked lines found in the error stream (goawk's own messages are
// whole lines without the marker) with what the program wrote to "/dev/stderr".
func CheckStderr(e *Expect, stderr []byte) string {
	var got []byte
	for _, l := range bytes.SplitAfter(stderr, []byte("\n")) {
		if bytes.HasPrefix(l, []byte(StderrMark)) {
			got = append(got, l...)
		}
	}
	if bytes.Equal(got, e.Stderr) {
		return ""
	}
	return "lines written to /dev/stderr: " + DiffBytes(e.Stderr, got)
}
