package c07split

import (
	"regexp"
	"sort"
	"strings"
)

// Known-defect simulator.  It is NOT an oracle: verdicts come from the reference splitter,
// the whole-input run and the losslessness equations.  It only answers "is this deviating
// trace exactly what known defect X predicts for the reads that were logged?", so that a
// known finding can be matched by a class as narrow as the defect and any other deviation of
// the same property stays unlisted.
//
// The simulated reader loop is bufio.Scanner's: call the split function on what is buffered
// (if anything, or at EOF); if it yields nothing, do ONE Read (to the next logged read
// offset) and try again.  The simulated split functions decide like the reference, except
// where a defect switch is on:
//
//	regex-rs:match-touches-end-of-partial-buffer   (D1a) a match that ends exactly at the end
//	    of a non-final buffer is accepted although more bytes could extend it
//	regex-rs:longer-match-needs-unseen-bytes       (D1b) a match that ends inside a non-final
//	    buffer is accepted although a longer alternative starting at the same place needs
//	    bytes that have not arrived
//	rs-empty:rt-truncated-at-read-boundary         (D2) RS="": the run of newlines after a
//	    paragraph is consumed only as far as the buffer reaches, RT is cut there
//	rs-empty:final-rt-wrong-offset                 (D3) RS="": RT of the last paragraph is
//	    sliced from the buffer start instead of the paragraph start when leading newlines
//	    are in the same buffer
//
// Explain tries the defect sets from "none" upwards and returns the classes that actually
// changed a decision in the first set whose prediction equals the observed records.
const (
	ClassRegexTouch = "regex-rs:match-touches-end-of-partial-buffer"
	ClassRegexLong  = "regex-rs:longer-match-needs-unseen-bytes"
	ClassParaTrunc  = "rs-empty:rt-truncated-at-read-boundary"
	ClassParaOffset = "rs-empty:final-rt-wrong-offset"
)

type defects struct {
	regexTouch, regexLong bool
	paraTrunc, paraOffset bool
}

type simRec struct{ rec, rt string }

// simulate replays the scanner loop over the logged reads. switchAt/re2: the program assigns
// a new RS while it processes record switchAt (0 = never).
func simulate(input []byte, kind Kind, re, re2 *regexp.Regexp, switchAt int, reads []int, eofWithLast bool, d defects) (out []simRec, fired map[string]bool) {
	fired = map[string]bool{}
	pos, end, ri := 0, 0, 0
	eof := false
	n := len(input)
	if n == 0 {
		return nil, fired
	}
	for guard := 0; guard < 4*n+16; guard++ {
		if end > pos || eof {
			data := input[pos:end]
			var rec, rt string
			adv, tok := 0, false
			switch kind {
			case KindRegex:
				cur := re
				if switchAt > 0 && len(out) >= switchAt {
					cur = re2
				}
				r, t, a, found := regexNext(cur, data, eof)
				if found && !eof && end < n {
					// what the whole remaining input says at this place
					fr, ft, _, _ := regexNext(cur, input[pos:], true)
					if fr != r || ft != t {
						touch := a == len(data)
						switch {
						case touch && d.regexTouch:
							fired[ClassRegexTouch] = true
						case !touch && d.regexLong:
							fired[ClassRegexLong] = true
						default:
							found = false // a sound splitter waits for more bytes
						}
					}
				}
				if found {
					rec, rt, adv, tok = r, t, a, true
				}
			case KindPara:
				rec, rt, adv, tok = simPara(data, eof, end < n && isNL(input[end]), d, fired)
			}
			if tok || adv > 0 {
				pos += adv
				if tok {
					out = append(out, simRec{rec, rt})
					continue
				}
			}
		}
		if eof {
			return
		}
		// one Read
		for ri < len(reads) && reads[ri] <= end {
			ri++
		}
		if ri < len(reads) {
			end = reads[ri]
			if end >= n {
				end = n
				if eofWithLast {
					eof = true
				}
			}
		} else {
			end = n
			eof = true
		}
	}
	return
}

// simPara is goawk's blank-line splitter with the two known defects switchable.
func simPara(data []byte, atEOF, nextIsNL bool, d defects, fired map[string]bool) (rec, rt string, adv int, tok bool) {
	if atEOF && len(data) == 0 {
		return
	}
	i := 0
	for i < len(data) && isNL(data[i]) {
		i++
	}
	if i >= len(data) {
		return "", "", i, false
	}
	start := i
	for ; i < len(data); i++ {
		if data[i] != '\n' {
			continue
		}
		end := i
		j := -1
		if i+1 < len(data) && data[i+1] == '\n' {
			j = i + 2
		} else if i+2 < len(data) && data[i+1] == '\r' && data[i+2] == '\n' {
			j = i + 3
		}
		if j < 0 {
			continue
		}
		for j < len(data) && isNL(data[j]) {
			j++
		}
		if j == len(data) && !atEOF && nextIsNL {
			// the newline run continues in bytes that have not arrived
			if !d.paraTrunc {
				return "", "", 0, false
			}
			fired[ClassParaTrunc] = true
		}
		return string(dropCR(data[start:end])), string(data[end:j]), j, true
	}
	if atEOF {
		tokb := dropCR(dropLF(data[start:]))
		if d.paraOffset && start > 0 {
			wrong := string(data[len(tokb):])
			if wrong != string(data[start+len(tokb):]) {
				fired[ClassParaOffset] = true
			}
			return string(tokb), wrong, len(data), true
		}
		return string(tokb), string(data[start+len(tokb):]), len(data), true
	}
	return "", "", 0, false
}

// Explain reports whether the observed records (record bytes and RT) are exactly what the
// splitters produce for the logged reads under some set of the known defects, and which
// defect classes changed a decision. ok=false: not explained (the caller leaves the class
// empty). ok=true with no classes: the trace is what a sound splitter produces.
func Explain(input []byte, rs string, re, re2 *regexp.Regexp, switchAt int, reads []int, eofWithLast bool, t Trace) (classes []string, ok bool) {
	kind := KindOf(rs)
	if t.Garbled != "" || (kind != KindRegex && kind != KindPara) {
		return nil, false
	}
	var sets []defects
	if kind == KindRegex {
		// {regexLong} before {regexTouch}: a trace that both predict goes to the defect that
		// the simple repair of the other (wait when a match touches the buffer end) leaves
		sets = []defects{{}, {regexLong: true}, {regexTouch: true}, {regexTouch: true, regexLong: true}}
	} else {
		sets = []defects{{}, {paraTrunc: true}, {paraOffset: true}, {paraTrunc: true, paraOffset: true}}
	}
	for _, d := range sets {
		sim, fired := simulate(input, kind, re, re2, switchAt, reads, eofWithLast, d)
		if len(sim) != len(t.Recs) {
			continue
		}
		same := true
		for i := range sim {
			if sim[i].rec != t.Recs[i].Rec || sim[i].rt != t.Recs[i].RT {
				same = false
				break
			}
		}
		if !same {
			continue
		}
		for c := range fired {
			classes = append(classes, c)
		}
		sort.Strings(classes)
		return classes, true
	}
	return nil, false
}

// JoinClasses merges class lists into one classifier key ("" if none).
func JoinClasses(lists ...[]string) string {
	seen := map[string]bool{}
	var all []string
	for _, l := range lists {
		for _, c := range l {
			if !seen[c] {
				seen[c] = true
				all = append(all, c)
			}
		}
	}
	sort.Strings(all)
	return strings.Join(all, "+")
}
