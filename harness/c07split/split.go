// Package c07split holds the models used by property C07 (record reading is lossless and
// independent of how the input bytes arrive):
//
//   - ChunkReader: an io.Reader that delivers a chosen partition of the input and logs the
//     offsets at which each Read actually ended (the scanner's buffer edge also cuts reads);
//   - Reference: the reference record splitter (SPL), written from the property text, that
//     works on the WHOLE input at once;
//   - ParseTrace: parser of the binary-safe record trace printed by the probe programs;
//   - Explain: a simulator of the splitters' KNOWN defects (decisions taken on a partial
//     buffer), used only to give a violation a narrow class for known_findings — a trace is
//     "explained" only if it is byte-for-byte what the known defect predicts for the logged
//     reads; anything else stays unclassified and is reported.
package c07split

import (
	"bytes"
	"fmt"
	"io"
	"regexp"
	"strings"
	"unicode/utf8"
)

// ---- chunk-controlled reader -----------------------------------------------------------------

// ChunkReader delivers data in the pieces ending at the offsets in Cuts (ascending, each
// strictly between 0 and len(data)); it never returns 0 bytes without io.EOF.
type ChunkReader struct {
	data        []byte
	cuts        []int
	pos         int
	ci          int
	EOFWithLast bool  // return io.EOF together with the last bytes (legal for an io.Reader)
	Reads       []int // cumulative offset after every Read that returned bytes
}

func NewChunkReader(data []byte, cuts []int, eofWithLast bool) *ChunkReader {
	return &ChunkReader{data: data, cuts: cuts, EOFWithLast: eofWithLast}
}

func (r *ChunkReader) Read(p []byte) (int, error) {
	if r.pos >= len(r.data) {
		return 0, io.EOF
	}
	if len(p) == 0 {
		return 0, nil
	}
	for r.ci < len(r.cuts) && r.cuts[r.ci] <= r.pos {
		r.ci++
	}
	end := len(r.data)
	if r.ci < len(r.cuts) {
		end = r.cuts[r.ci]
	}
	n := end - r.pos
	if n > len(p) {
		n = len(p) // the caller's buffer edge cuts the delivery; logged like any other read
	}
	copy(p, r.data[r.pos:r.pos+n])
	r.pos += n
	r.Reads = append(r.Reads, r.pos)
	if r.pos == len(r.data) && r.EOFWithLast {
		return n, io.EOF
	}
	return n, nil
}

// CutsFromMask turns a bit mask over the n-1 inner positions of an n-byte input into cut
// offsets (bit i set = a delivery ends after byte i+1).
func CutsFromMask(mask uint64, n int) []int {
	var cuts []int
	for i := 0; i < n-1 && i < 64; i++ {
		if mask&(1<<uint(i)) != 0 {
			cuts = append(cuts, i+1)
		}
	}
	return cuts
}

// ---- reference splitter (SPL) ----------------------------------------------------------------

type Kind int

const (
	KindNewline Kind = iota // RS == "\n": lines, one trailing CR dropped
	KindByte                // one-byte RS
	KindPara                // RS == "": blank-line separated paragraphs
	KindRegex               // anything longer: regular expression (a single multi-byte char is literal)
)

func (k Kind) String() string { return [...]string{"newline", "byte", "para", "regex"}[k] }

func KindOf(rs string) Kind {
	switch {
	case rs == "\n":
		return KindNewline
	case rs == "":
		return KindPara
	case len(rs) == 1:
		return KindByte
	}
	return KindRegex
}

// CompileRS compiles a multi-byte RS the way the AWK language defines it: a single
// character is itself; anything longer is an extended regular expression in which '.'
// matches newline too; matching is leftmost-longest.
func CompileRS(rs string) (*regexp.Regexp, error) {
	var src string
	if utf8.RuneCountInString(rs) == 1 {
		src = regexp.QuoteMeta(rs)
	} else {
		src = "(?s:" + rs + ")"
	}
	re, err := regexp.Compile(src)
	if err != nil {
		return nil, err
	}
	re.Longest()
	return re, nil
}

// RefRec is one record of the reference split. Term is the extent [TermStart, Next) of the
// terminator occurrence in the input (empty for an unterminated final record).
type RefRec struct {
	Rec       string
	RT        string
	TermStart int
	Next      int
}

// Ref is the reference split of a whole input.
type Ref struct {
	Kind Kind
	Recs []RefRec
	// RecDemanded: the property text pins the records (false for RS="" on inputs with CR,
	// where the text is silent; the model then follows goawk's apparent intent and is used
	// for classification only).
	RecDemanded bool
	// RTDemanded: the property text pins RT as well (regex RS: record+RT reproduces the
	// input; RS="": the text that ended the paragraph). For "\n" and one-byte RS the text
	// says nothing about RT (goawk reports RS itself, even after an unterminated last record).
	RTDemanded bool
}

// regexNext splits one record off data with the regular expression re. atEOF=false asks
// "what would a splitter that sees only this much decide": found=false means it must wait.
func regexNext(re *regexp.Regexp, data []byte, atEOF bool) (rec, rt string, adv int, found bool) {
	loc := re.FindIndex(data)
	if loc != nil && loc[0] != loc[1] {
		return string(data[:loc[0]]), string(data[loc[0]:loc[1]]), loc[1], true
	}
	if atEOF && len(data) > 0 {
		return string(data), "", len(data), true
	}
	return "", "", 0, false
}

func isNL(b byte) bool { return b == '\n' || b == '\r' }

// paraNext splits one paragraph off data (whole remaining input). It returns skip = number of
// leading newline bytes dropped, the record, its terminator and the total advance. CR handling
// (only reached on inputs with CR, where the property is silent) follows goawk's intent: CR
// counts as a newline byte in the runs around a paragraph, "\n\r\n" is a blank line, and one
// trailing CR of the paragraph is dropped.
func paraNext(data []byte) (skip int, rec, rt string, adv int, found bool) {
	i := 0
	for i < len(data) && isNL(data[i]) {
		i++
	}
	if i >= len(data) {
		return i, "", "", i, false
	}
	start := i
	for ; i < len(data); i++ {
		if data[i] != '\n' {
			continue
		}
		end := i
		j := -1
		if i+1 < len(data) && data[i+1] == '\n' {
			j = i + 2
		} else if i+2 < len(data) && data[i+1] == '\r' && data[i+2] == '\n' {
			j = i + 3
		}
		if j < 0 {
			continue
		}
		for j < len(data) && isNL(data[j]) {
			j++
		}
		return start, string(dropCR(data[start:end])), string(data[end:j]), j, true
	}
	tok := dropCR(dropLF(data[start:]))
	return start, string(tok), string(data[start+len(tok):]), len(data), true
}

func dropCR(b []byte) []byte {
	if len(b) > 0 && b[len(b)-1] == '\r' {
		return b[:len(b)-1]
	}
	return b
}

func dropLF(b []byte) []byte {
	if len(b) > 0 && b[len(b)-1] == '\n' {
		return b[:len(b)-1]
	}
	return b
}

// Reference splits the whole input by rs. re must be CompileRS(rs) for KindRegex.
func Reference(input []byte, rs string, re *regexp.Regexp) *Ref {
	ref := &Ref{Kind: KindOf(rs), RecDemanded: true}
	switch ref.Kind {
	case KindNewline:
		pos := 0
		for pos < len(input) {
			i := bytes.IndexByte(input[pos:], '\n')
			if i < 0 {
				ref.Recs = append(ref.Recs, RefRec{Rec: string(dropCR(input[pos:])), TermStart: len(input), Next: len(input)})
				break
			}
			line := input[pos : pos+i]
			ts := pos + i
			if len(line) > 0 && line[len(line)-1] == '\r' {
				line = line[:len(line)-1]
				ts--
			}
			ref.Recs = append(ref.Recs, RefRec{Rec: string(line), RT: "\n", TermStart: ts, Next: pos + i + 1})
			pos += i + 1
		}
	case KindByte:
		pos := 0
		for pos < len(input) {
			i := bytes.IndexByte(input[pos:], rs[0])
			if i < 0 {
				ref.Recs = append(ref.Recs, RefRec{Rec: string(input[pos:]), TermStart: len(input), Next: len(input)})
				break
			}
			ref.Recs = append(ref.Recs, RefRec{Rec: string(input[pos : pos+i]), RT: rs, TermStart: pos + i, Next: pos + i + 1})
			pos += i + 1
		}
	case KindPara:
		ref.RTDemanded = true
		if bytes.IndexByte(input, '\r') >= 0 {
			ref.RecDemanded, ref.RTDemanded = false, false
		}
		pos := 0
		for pos < len(input) {
			skip, rec, rt, adv, found := paraNext(input[pos:])
			if !found {
				break
			}
			ref.Recs = append(ref.Recs, RefRec{Rec: rec, RT: rt, TermStart: pos + adv - len(rt), Next: pos + adv})
			_ = skip
			pos += adv
		}
	case KindRegex:
		ref.RTDemanded = true
		pos := 0
		for pos < len(input) {
			rec, rt, adv, _ := regexNext(re, input[pos:], true)
			ref.Recs = append(ref.Recs, RefRec{Rec: rec, RT: rt, TermStart: pos + len(rec), Next: pos + adv})
			pos += adv
		}
	}
	return ref
}

// ReferenceSwitch is the reference for a program that assigns RS=rs2 while it processes
// record number k (1-based) of a stream read with a regular-expression rs1: records 1..k
// are split by rs1, the rest by rs2 (also taken as a regular expression / literal
// character, since the stream already has a regular-expression splitter).
func ReferenceSwitch(input []byte, re1, re2 *regexp.Regexp, k int) *Ref {
	ref := &Ref{Kind: KindRegex, RecDemanded: true, RTDemanded: true}
	pos := 0
	for pos < len(input) {
		re := re1
		if len(ref.Recs) >= k {
			re = re2
		}
		rec, rt, adv, _ := regexNext(re, input[pos:], true)
		ref.Recs = append(ref.Recs, RefRec{Rec: rec, RT: rt, TermStart: pos + len(rec), Next: pos + adv})
		pos += adv
	}
	return ref
}

// TouchStats reports, for a set of read boundaries, how many fall strictly inside a
// terminator occurrence of the reference split and how many touch one (start, inside or end).
func (ref *Ref) TouchStats(reads []int, n int) (inside, touching int) {
	if len(reads) == 0 {
		return
	}
	ri := 0
	for _, b := range reads {
		if b <= 0 || b >= n {
			continue
		}
		for ri < len(ref.Recs) && ref.Recs[ri].Next < b {
			ri++
		}
		if ri >= len(ref.Recs) {
			break
		}
		r := ref.Recs[ri]
		if r.Next == r.TermStart {
			continue
		}
		if b > r.TermStart && b < r.Next {
			inside++
		}
		if b >= r.TermStart && b <= r.Next {
			touching++
		}
	}
	return
}

// ---- trace --------------------------------------------------------------------------------

// Rec is one observed record: the probe program prints
//
//	printf "%d %d %d %d:%s%s\n", NR, FNR, length($0), length(RT), $0, RT
//
// in bytes mode, and `printf "E %d\n", NR` at the end.
type Rec struct {
	NR, FNR int
	Rec, RT string
}

type Trace struct {
	Recs    []Rec
	EndNR   int
	HasEnd  bool
	Garbled string // non-empty: the output could not be parsed (reason)
}

func ParseTrace(out string) Trace {
	var t Trace
	i := 0
	num := func() (int, bool) {
		j := i
		for j < len(out) && out[j] >= '0' && out[j] <= '9' {
			j++
		}
		if j == i || j-i > 9 {
			return 0, false
		}
		v := 0
		for _, c := range out[i:j] {
			v = v*10 + int(c-'0')
		}
		i = j
		return v, true
	}
	expect := func(c byte) bool {
		if i < len(out) && out[i] == c {
			i++
			return true
		}
		return false
	}
	for i < len(out) {
		if out[i] == 'E' {
			i++
			if !expect(' ') {
				t.Garbled = fmt.Sprintf("bad end line at output offset %d", i)
				return t
			}
			v, ok := num()
			if !ok || !expect('\n') || i != len(out) {
				t.Garbled = fmt.Sprintf("bad end line at output offset %d", i)
				return t
			}
			t.EndNR, t.HasEnd = v, true
			return t
		}
		var h [4]int
		for k := 0; k < 4; k++ {
			v, ok := num()
			sep := byte(' ')
			if k == 3 {
				sep = ':'
			}
			if !ok || !expect(sep) {
				t.Garbled = fmt.Sprintf("bad record header at output offset %d", i)
				return t
			}
			h[k] = v
		}
		if i+h[2]+h[3]+1 > len(out) {
			t.Garbled = fmt.Sprintf("record body at output offset %d shorter than announced (%d+%d)", i, h[2], h[3])
			return t
		}
		r := Rec{NR: h[0], FNR: h[1], Rec: out[i : i+h[2]], RT: out[i+h[2] : i+h[2]+h[3]]}
		i += h[2] + h[3]
		if !expect('\n') {
			t.Garbled = fmt.Sprintf("record body at output offset %d longer than announced", i)
			return t
		}
		t.Recs = append(t.Recs, r)
	}
	return t
}

func (t Trace) Equal(u Trace) bool {
	if t.Garbled != "" || u.Garbled != "" || len(t.Recs) != len(u.Recs) || t.HasEnd != u.HasEnd || t.EndNR != u.EndNR {
		return false
	}
	for i := range t.Recs {
		if t.Recs[i] != u.Recs[i] {
			return false
		}
	}
	return true
}

// String renders a trace compactly for messages: NR:"rec"+"RT" ...
func (t Trace) String() string {
	if t.Garbled != "" {
		return "GARBLED(" + t.Garbled + ")"
	}
	var sb strings.Builder
	for i, r := range t.Recs {
		if i > 0 {
			sb.WriteByte(' ')
		}
		if i >= 12 && len(t.Recs) > 14 {
			fmt.Fprintf(&sb, "...(%d more)", len(t.Recs)-i)
			break
		}
		fmt.Fprintf(&sb, "%d/%d:%s+%s", r.NR, r.FNR, clipQ(r.Rec), clipQ(r.RT))
	}
	if t.HasEnd {
		fmt.Fprintf(&sb, " END(NR=%d)", t.EndNR)
	}
	return sb.String()
}

func clipQ(s string) string {
	if len(s) > 40 {
		return fmt.Sprintf("%q..(%d bytes)..%q", s[:12], len(s), s[len(s)-12:])
	}
	return fmt.Sprintf("%q", s)
}

// RefString renders the reference split the same way.
func (ref *Ref) String() string {
	var sb strings.Builder
	for i, r := range ref.Recs {
		if i > 0 {
			sb.WriteByte(' ')
		}
		if i >= 12 && len(ref.Recs) > 14 {
			fmt.Fprintf(&sb, "...(%d more)", len(ref.Recs)-i)
			break
		}
		rt := clipQ(r.RT)
		if !ref.RTDemanded {
			rt = "*"
		}
		fmt.Fprintf(&sb, "%d:%s+%s", i+1, clipQ(r.Rec), rt)
	}
	return sb.String()
}

// FirstDiff describes the first record at which an observed trace departs from the reference
// ("" if it conforms). Numbering (NR, FNR, END) is checked by the caller.
func (ref *Ref) FirstDiff(t Trace, compareRT bool) string {
	if t.Garbled != "" {
		return "trace " + t.String()
	}
	n := len(ref.Recs)
	if len(t.Recs) < n {
		n = len(t.Recs)
	}
	for i := 0; i < n; i++ {
		if t.Recs[i].Rec != ref.Recs[i].Rec {
			return fmt.Sprintf("record %d is %s, reference %s", i+1, clipQ(t.Recs[i].Rec), clipQ(ref.Recs[i].Rec))
		}
		if compareRT && t.Recs[i].RT != ref.Recs[i].RT {
			return fmt.Sprintf("record %d (%s) has RT %s, reference %s", i+1, clipQ(t.Recs[i].Rec), clipQ(t.Recs[i].RT), clipQ(ref.Recs[i].RT))
		}
	}
	if len(t.Recs) != len(ref.Recs) {
		return fmt.Sprintf("%d records, reference has %d", len(t.Recs), len(ref.Recs))
	}
	return ""
}
