// Package exprgen builds AWK expression trees as an IR independent of goawk's parser and
// prints them (a) with only the parentheses the POSIX precedence table requires ("min") and
// (b) with every operand parenthesised ("full"), plus the canonical dump the parsed tree is
// expected to have (same format as astx.DumpExpr with SkipGrouping).
package exprgen

import (
	"fmt"
	"strconv"
	"strings"
)

// Precedence levels of the POSIX table, lowest to highest (as in the property text).
const (
	LAssign = iota + 1
	LCond
	LOr
	LAnd
	LIn
	LMatch
	LRel
	LConcat
	LAdd
	LMul
	LUnary
	LPow
	LIncr
	LField
	LPrimary
)

type Kind int

const (
	KVar Kind = iota
	KNum
	KStr
	KRegex   // bare /re/
	KIndex   // a[e,...]
	KField   // $e
	KCall    // builtin call: Name(args)
	KUser    // user call: Name(args)
	KUnary   // Op in + - !
	KBinary  // Op: || && ~ !~ < <= != == > >= cat + - * / % ^
	KCond    // c ? t : f
	KAssign  // Op: = += -= *= /= %= ^=
	KIncr    // Op ++ / --, Pre
	KIn      // (idx...) in Name
	KGetline // getline forms: Kids[0]=cmd (or nil), Target, File
	KGroup   // explicit parentheses in the source (a GroupingExpr in goawk's tree)
)

type E struct {
	K    Kind
	Op   string
	Name string
	Num  float64
	Str  string
	Pre  bool
	Kids []*E
	// getline parts
	Cmd, Target, File *E
}

func Var(n string) *E              { return &E{K: KVar, Name: n} }
func Num(f float64) *E             { return &E{K: KNum, Num: f} }
func Str(s string) *E              { return &E{K: KStr, Str: s} }
func Regex(s string) *E            { return &E{K: KRegex, Str: s} }
func Index(a string, idx ...*E) *E { return &E{K: KIndex, Name: a, Kids: idx} }
func Field(e *E) *E                { return &E{K: KField, Kids: []*E{e}} }
func Call(f string, args ...*E) *E { return &E{K: KCall, Name: f, Kids: args} }
func User(f string, args ...*E) *E { return &E{K: KUser, Name: f, Kids: args} }
func Unary(op string, e *E) *E     { return &E{K: KUnary, Op: op, Kids: []*E{e}} }
func Bin(op string, l, r *E) *E    { return &E{K: KBinary, Op: op, Kids: []*E{l, r}} }
func Cond(c, t, f *E) *E           { return &E{K: KCond, Kids: []*E{c, t, f}} }
func Assign(op string, l, r *E) *E { return &E{K: KAssign, Op: op, Kids: []*E{l, r}} }
func Incr(op string, pre bool, e *E) *E {
	return &E{K: KIncr, Op: op, Pre: pre, Kids: []*E{e}}
}
func In(arr string, idx ...*E) *E { return &E{K: KIn, Name: arr, Kids: idx} }
func Group(e *E) *E               { return &E{K: KGroup, Kids: []*E{e}} }
func Getline(cmd, target, file *E) *E {
	return &E{K: KGetline, Cmd: cmd, Target: target, File: file}
}

// IsLValue reports whether e can be assigned / incremented.
func (e *E) IsLValue() bool { return e.K == KVar || e.K == KIndex || e.K == KField }

// Level returns the precedence level of the node's top operator.
func (e *E) Level() int {
	switch e.K {
	case KUnary:
		return LUnary
	case KBinary:
		switch e.Op {
		case "||":
			return LOr
		case "&&":
			return LAnd
		case "~", "!~":
			return LMatch
		case "<", "<=", "!=", "==", ">", ">=":
			return LRel
		case "cat":
			return LConcat
		case "+", "-":
			return LAdd
		case "*", "/", "%":
			return LMul
		case "^":
			return LPow
		}
	case KCond:
		return LCond
	case KAssign:
		return LAssign
	case KIncr:
		return LIncr
	case KIn:
		return LIn
	case KField:
		return LField
	case KGetline:
		return 0 // always parenthesised as an operand (non-table construct)
	}
	return LPrimary
}

// Ctx tells the printer where the expression stands.
type Ctx struct {
	Print bool // inside print/printf arguments: an unprotected > must be parenthesised
}

// Min prints e with only the parentheses the table requires (plus the documented non-table
// cases where they are kept). Tokens are separated by spaces so that only grouping is tested.
func Min(e *E, cx Ctx) string { return pr(e, cx, false) }

// Full prints e with every operand parenthesised.
func Full(e *E, cx Ctx) string { return pr(e, cx, true) }

func paren(s string) string { return "(" + s + ")" }

// firstTok returns the first token the min rendering of e starts with (for adjacency hazards).
func firstTok(e *E) string {
	switch e.K {
	case KUnary:
		return e.Op
	case KIncr:
		if e.Pre {
			return e.Op
		}
		return firstTok(e.Kids[0])
	case KBinary, KCond, KAssign:
		return firstTok(e.Kids[0])
	case KIn:
		if len(e.Kids) == 1 {
			return firstTok(e.Kids[0])
		}
		return "("
	case KField:
		return "$"
	case KRegex:
		return "/"
	case KGroup:
		return "("
	}
	return "x"
}

func pr(e *E, cx Ctx, full bool) string {
	inner := Ctx{} // inside parentheses / brackets / call arguments a > is protected
	// operand prints child c with parentheses when need is true (always in full mode).
	operand := func(c *E, need bool) string {
		if full {
			if c.K == KVar || c.K == KNum || c.K == KStr {
				return pr(c, inner, full) // leaves stay bare, as in ordinary fully parenthesised source
			}
			return paren(pr(c, inner, full))
		}
		if need || c.K == KGetline {
			return paren(pr(c, inner, full))
		}
		return pr(c, cx, full)
	}
	lvalue := func(c *E) string { // lvalues are never parenthesised (a[..], $.., name)
		return pr(c, cx, full)
	}
	list := func(es []*E) string {
		parts := make([]string, len(es))
		for i, a := range es {
			parts[i] = pr(a, inner, full)
		}
		return strings.Join(parts, ", ")
	}
	switch e.K {
	case KVar:
		return e.Name
	case KNum:
		return strconv.FormatFloat(e.Num, 'g', -1, 64)
	case KStr:
		return strconv.Quote(e.Str)
	case KRegex:
		return "/" + e.Str + "/"
	case KGroup:
		return paren(pr(e.Kids[0], inner, full))
	case KIndex:
		return e.Name + "[" + list(e.Kids) + "]"
	case KCall, KUser:
		return e.Name + "(" + list(e.Kids) + ")"
	case KField:
		c := e.Kids[0]
		// operand of $ stays parenthesised unless it is a primary or another $ (non-table cases)
		need := !(c.Level() >= LPrimary && c.K != KRegex || c.K == KField)
		if full && (c.K == KVar || c.K == KNum) {
			return "$" + pr(c, inner, full)
		}
		return "$" + operand(c, need)
	case KUnary:
		c := e.Kids[0]
		return e.Op + " " + operand(c, c.Level() < LUnary)
	case KIncr:
		if e.Pre {
			return e.Op + " " + lvalue(e.Kids[0])
		}
		if k := e.Kids[0]; k.K == KField && !full && k.Kids[0].Level() < LPrimary {
			// `$$x++`: implementations read this as $($x++), not ($$x)++ (documented
			// non-table case), so the operand of the outer $ keeps its parentheses here
			return "$" + paren(pr(k.Kids[0], inner, full)) + " " + e.Op
		}
		return lvalue(e.Kids[0]) + " " + e.Op
	case KAssign:
		return lvalue(e.Kids[0]) + " " + e.Op + " " + operand(e.Kids[1], false)
	case KCond:
		c, t, f := e.Kids[0], e.Kids[1], e.Kids[2]
		return operand(c, c.Level() <= LCond) + " ? " + operand(t, t.Level() < LCond) + " : " + operand(f, f.Level() < LCond)
	case KIn:
		if len(e.Kids) == 1 {
			c := e.Kids[0]
			return operand(c, c.Level() < LIn) + " in " + e.Name
		}
		return "(" + list(e.Kids) + ") in " + e.Name
	case KGetline:
		s := ""
		if e.Cmd != nil {
			// `expr | getline` binds looser than concatenation: anything at concatenation
			// level or above stands unparenthesised on the left
			s = operand(e.Cmd, e.Cmd.Level() < LConcat) + " | "
		}
		s += "getline"
		if e.Target != nil {
			s += " " + pr(e.Target, cx, full)
		}
		if e.File != nil {
			s += " < " + operand(e.File, e.File.Level() < LPrimary || e.File.K == KRegex)
		}
		return s
	case KBinary:
		l, r := e.Kids[0], e.Kids[1]
		L := e.Level()
		var needL, needR bool
		switch {
		case e.Op == "^": // right-associative
			needL, needR = l.Level() <= L, r.Level() < L
		case L == LRel || L == LMatch: // non-associative
			needL, needR = l.Level() <= L, r.Level() <= L
		default: // left-associative
			needL, needR = l.Level() < L, r.Level() <= L
		}
		if e.Op == "cat" {
			// non-table cases: a right operand starting with + - ++ -- would read as a binary
			// operator / post-increment; a bare regex after a value reads as division
			switch firstTok(r) {
			case "+", "-", "++", "--", "/":
				needR = true
			}
			if firstTok(l) == "/" && l.K == KRegex {
				needL = true
			}
			return operand(l, needL) + " " + operand(r, needR)
		}
		if (e.Op == "~" || e.Op == "!~") && r.K == KRegex {
			// regex literal as the right operand of a match operator
			return operand(l, needL) + " " + e.Op + " " + pr(r, cx, full)
		}
		if e.Op == "/" && firstTok(r) == "/" {
			needR = true
		}
		if e.Op == ">" && cx.Print && !full {
			// in print context an unparenthesised > is a redirection
			return paren(operand(l, needL) + " > " + operand(r, needR))
		}
		if l.K == KRegex {
			needL = true
		}
		if r.K == KRegex {
			needR = true
		}
		s := operand(l, needL) + " " + e.Op + " " + operand(r, needR)
		if e.Op == ">" && cx.Print {
			return paren(s)
		}
		return s
	}
	panic(fmt.Sprintf("exprgen: unknown kind %d", e.K))
}

// Dump renders the tree the parser is expected to produce (astx.DumpExpr format, grouping skipped).
func Dump(e *E) string {
	var sb strings.Builder
	dump(&sb, e)
	return sb.String()
}

func dumpList(sb *strings.Builder, es []*E) {
	for i, a := range es {
		if i > 0 {
			sb.WriteString(", ")
		}
		dump(sb, a)
	}
}

func dump(sb *strings.Builder, e *E) {
	switch e.K {
	case KVar:
		fmt.Fprintf(sb, "(var %s)", e.Name)
	case KNum:
		fmt.Fprintf(sb, "(num %s)", strconv.FormatFloat(e.Num, 'g', -1, 64))
	case KStr:
		fmt.Fprintf(sb, "(str %q)", e.Str)
	case KRegex:
		fmt.Fprintf(sb, "(regex %q)", e.Str)
	case KGroup:
		dump(sb, e.Kids[0])
	case KIndex:
		fmt.Fprintf(sb, "(index %s [", e.Name)
		dumpList(sb, e.Kids)
		sb.WriteString("])")
	case KCall:
		fmt.Fprintf(sb, "(call %s [", e.Name)
		dumpList(sb, e.Kids)
		sb.WriteString("])")
	case KUser:
		fmt.Fprintf(sb, "(ucall %s [", e.Name)
		dumpList(sb, e.Kids)
		sb.WriteString("])")
	case KField:
		sb.WriteString("($ ")
		dump(sb, e.Kids[0])
		sb.WriteString(")")
	case KUnary:
		fmt.Fprintf(sb, "(u%s ", e.Op)
		dump(sb, e.Kids[0])
		sb.WriteString(")")
	case KIncr:
		if e.Pre {
			fmt.Fprintf(sb, "(pre%s ", e.Op)
		} else {
			fmt.Fprintf(sb, "(post%s ", e.Op)
		}
		dump(sb, e.Kids[0])
		sb.WriteString(")")
	case KAssign:
		if e.Op == "=" {
			sb.WriteString("(= ")
		} else {
			fmt.Fprintf(sb, "(%s= ", strings.TrimSuffix(e.Op, "="))
		}
		dump(sb, e.Kids[0])
		sb.WriteString(" ")
		dump(sb, e.Kids[1])
		sb.WriteString(")")
	case KCond:
		sb.WriteString("(?: ")
		dump(sb, e.Kids[0])
		sb.WriteString(" ")
		dump(sb, e.Kids[1])
		sb.WriteString(" ")
		dump(sb, e.Kids[2])
		sb.WriteString(")")
	case KIn:
		sb.WriteString("(in [")
		dumpList(sb, e.Kids)
		fmt.Fprintf(sb, "] %s)", e.Name)
	case KGetline:
		sb.WriteString("(getline")
		if e.Cmd != nil {
			sb.WriteString(" cmd=")
			dump(sb, e.Cmd)
		}
		if e.Target != nil {
			sb.WriteString(" target=")
			dump(sb, e.Target)
		}
		if e.File != nil {
			sb.WriteString(" file=")
			dump(sb, e.File)
		}
		sb.WriteString(")")
	case KBinary:
		if e.Op == "~" || e.Op == "!~" {
			if r := e.Kids[1]; r.K == KRegex {
				fmt.Fprintf(sb, "(%s ", e.Op)
				dump(sb, e.Kids[0])
				fmt.Fprintf(sb, " (restr %q))", r.Str)
				return
			}
		}
		fmt.Fprintf(sb, "(%s ", e.Op)
		dump(sb, e.Kids[0])
		sb.WriteString(" ")
		dump(sb, e.Kids[1])
		sb.WriteString(")")
	}
}

// DroppedParens reports how many parenthesis pairs Min omits relative to Full.
func DroppedParens(e *E, cx Ctx) int {
	return strings.Count(Full(e, cx), "(") - strings.Count(Min(e, cx), "(")
}
