// Package run executes goawk programs in-process with panic capture, a deterministic
// step budget (verif hook) and access to the hook observations.
package run

import (
	"bytes"
	"context"
	"errors"
	"fmt"
	"os"
	"runtime/debug"
	"strings"

	"github.com/benhoyt/goawk/interp"
	"github.com/benhoyt/goawk/parser"
)

// DefaultStepLimit bounds every in-process run (dispatch steps, not wall-clock).
const DefaultStepLimit = 3_000_000

type Opts struct {
	StepLimit uint64 // 0 = DefaultStepLimit
	Hist      bool
	Ctx       context.Context // if set, ExecuteContext is used
	Interp    *interp.Interpreter
	// FileOutput: standard output and error are temporary files (read back into the Outcome)
	// instead of in-memory buffers; for programs that start child processes.
	FileOutput bool
}

type Outcome struct {
	Stdout    string
	Stderr    string
	Status    int
	Err       string // "" if nil
	ErrVal    error  `json:"-"`
	StepLimit bool
	Panic     string
	Steps     uint64
	Faults    []string
	Hist      map[interp.VerifOpKey]uint64 `json:"-"`
}

// Sig is the comparable observable outcome: stdout, status and error presence.
func (o Outcome) Sig() string {
	e := "ok"
	if o.Panic != "" {
		e = "PANIC"
	} else if o.StepLimit {
		e = "STEPLIMIT"
	} else if o.Err != "" {
		e = "error"
	}
	return fmt.Sprintf("%s status=%d stdout=%q", e, o.Status, o.Stdout)
}

func (o Outcome) String() string {
	s := o.Sig()
	if o.Err != "" {
		s += " err=" + o.Err
	}
	if o.Panic != "" {
		s += " panic=" + o.Panic
	}
	if len(o.Faults) > 0 {
		s += " faults=" + strings.Join(o.Faults, ";")
	}
	return s
}

// Parse parses src, capturing panics. Exactly one of prog, err, panicMsg is set.
func Parse(src string, funcs map[string]any) (prog *parser.Program, err error, panicMsg string) {
	defer func() {
		if r := recover(); r != nil {
			prog, err = nil, nil
			panicMsg = fmt.Sprintf("%v\n%s", r, trimStack(debug.Stack()))
		}
	}()
	var cfg *parser.ParserConfig
	if funcs != nil {
		cfg = &parser.ParserConfig{Funcs: funcs}
	}
	prog, err = parser.ParseProgram([]byte(src), cfg)
	return
}

// Exec runs prog on a fresh (or given) interpreter. If cfg.Output / cfg.Error are nil they
// are captured into the Outcome.
func Exec(prog *parser.Program, cfg *interp.Config, o Opts) (out Outcome) {
	var stdout, stderr bytes.Buffer
	c := *cfg
	if o.FileOutput && c.Output == nil && c.Error == nil {
		// Children inherit a file directly; any other writer is served by an os/exec copying
		// goroutine that goawk abandons 250 ms (WaitDelay) after the child's exit.
		fo, err1 := os.CreateTemp("", "verif-out-*")
		fe, err2 := os.CreateTemp("", "verif-err-*")
		if err1 == nil && err2 == nil {
			c.Output, c.Error = fo, fe
			defer func() {
				for _, f := range []*os.File{fo, fe} {
					_ = f.Close()
				}
				bo, _ := os.ReadFile(fo.Name())
				be, _ := os.ReadFile(fe.Name())
				out.Stdout, out.Stderr = string(bo), string(be)
				_ = os.Remove(fo.Name())
				_ = os.Remove(fe.Name())
			}()
		} else {
			for _, f := range []*os.File{fo, fe} {
				if f != nil {
					_ = f.Close()
					_ = os.Remove(f.Name())
				}
			}
		}
	}
	if c.Output == nil {
		c.Output = &stdout
	}
	if c.Error == nil {
		c.Error = &stderr
	}
	if c.Environ == nil {
		c.Environ = []string{}
	}
	ip := o.Interp
	defer func() {
		if r := recover(); r != nil {
			out.Panic = fmt.Sprintf("%v\n%s", r, trimStack(debug.Stack()))
		}
		out.Stdout = stdout.String()
		out.Stderr = stderr.String()
		if ip != nil {
			out.Steps = ip.VerifSteps()
			out.Faults = ip.VerifFaults()
			out.Hist = ip.VerifOpcodeHistogram()
		}
	}()
	if ip == nil {
		var err error
		ip, err = interp.New(prog)
		if err != nil {
			out.Err = err.Error()
			out.ErrVal = err
			return
		}
	}
	limit := o.StepLimit
	if limit == 0 {
		limit = DefaultStepLimit
	}
	ip.VerifSetStepLimit(limit)
	ip.VerifReset(o.Hist)
	var status int
	var err error
	if o.Ctx != nil {
		status, err = ip.ExecuteContext(o.Ctx, &c)
	} else {
		status, err = ip.Execute(&c)
	}
	out.Status = status
	if err != nil {
		out.Err = err.Error()
		out.ErrVal = err
		if errors.Is(err, interp.ErrVerifStepLimit) {
			out.StepLimit = true
		}
	}
	return
}

// Source parses and runs src with stdin text; convenience for probes.
func Source(src, stdin string, cfg *interp.Config, o Opts) (Outcome, error) {
	prog, err, pm := Parse(src, cfg.Funcs)
	if pm != "" {
		return Outcome{Panic: "parse: " + pm}, nil
	}
	if err != nil {
		return Outcome{}, err
	}
	c := *cfg
	if c.Stdin == nil {
		c.Stdin = strings.NewReader(stdin)
	}
	return Exec(prog, &c, o), nil
}

func trimStack(b []byte) string {
	s := string(b)
	// drop the frames of debug.Stack/recover machinery, keep it short
	lines := strings.Split(s, "\n")
	var keep []string
	for _, l := range lines {
		if strings.Contains(l, "runtime/debug.Stack") || strings.Contains(l, "runtime/debug/stack.go") {
			continue
		}
		keep = append(keep, l)
		if len(keep) > 24 {
			break
		}
	}
	return strings.Join(keep, "\n")
}

// PanicSite extracts "file.go:line" of the first goawk frame from a captured panic text.
func PanicSite(p string) string {
	for _, l := range strings.Split(p, "\n") {
		l = strings.TrimSpace(l)
		if strings.HasPrefix(l, "/repo/") && !strings.Contains(l, "/verifhook/") {
			if i := strings.IndexByte(l, ' '); i > 0 {
				l = l[:i]
			}
			return strings.TrimPrefix(l, "/repo/")
		}
	}
	if i := strings.IndexByte(p, '\n'); i > 0 {
		return p[:i]
	}
	return p
}
