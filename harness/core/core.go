// Package core is the check runner: deterministic case batches executed in child
// processes, three-valued verdicts, evidence and replay files, known-findings matching.
package core

import (
	"crypto/sha256"
	"encoding/hex"
	"encoding/json"
	"fmt"
	"hash/fnv"
	"math/rand"
	"os"
	"path/filepath"
	"sort"
	"strings"
	"sync"
	"time"
)

// VerifDir is the home of evidence/, replay/, known findings and .build (env VERIF_HOME
// overrides it so that a development copy of the harness can run beside the registered one).
var (
	VerifDir = verifHome()
	BuildDir = VerifDir + "/.build"
)

const RepoDir = "/repo"

func verifHome() string {
	if h := os.Getenv("VERIF_HOME"); h != "" {
		return h
	}
	return "/verif"
}

type Tier string

const (
	Quick    Tier = "quick"
	Thorough Tier = "thorough"
)

// Witness describes one observed violation, with everything needed to replay it.
type Witness struct {
	Property string          `json:"property"`
	Kind     string          `json:"kind"`            // the monitor that fired
	Class    string          `json:"class,omitempty"` // narrow classifier key used by known_findings.json
	Summary  string          `json:"summary"`
	Expected string          `json:"expected,omitempty"`
	Observed string          `json:"observed,omitempty"`
	Case     json.RawMessage `json:"case,omitempty"` // property-specific replayable case
	Seed     int64           `json:"seed"`
	Tier     Tier            `json:"tier"`
	Batch    int             `json:"batch"`
}

// Property is one registered check.
type Property struct {
	ID          string
	Level       string // exploration | fault_enumeration | ...
	Rule        string // how cases are generated and what makes one non-trivial
	Assumptions []string
	Explanation string
	// NBatches returns how many child batches the tier is split into.
	NBatches func(t Tier) int
	// Run executes batch c.Batch (0-based) of c.NBatches.
	Run func(c *Ctx)
	// Replay re-runs one recorded case (the Witness.Case payload).
	Replay func(c *Ctx, raw json.RawMessage)
	// Setup runs once in the parent before children start (build extra binaries etc.).
	Setup func(t Tier) error
	// Floors: minimum values of named counters / cover sets (sizes) / "evaluations" /
	// "distinct_nontrivial"; a run below a floor is inconclusive.
	Floors func(t Tier) map[string]int
	// Race: children run from the -race binary.
	Race func(t Tier) bool
	// Finish lets a property add parent-level checks over the aggregate.
	Finish func(a *Agg, t Tier)
	// BatchTimeout overrides the per-child watchdog.
	BatchTimeout func(t Tier) time.Duration
	// Exhaustive sub-spaces flag for the evidence file.
	Exhaustive func(t Tier) bool
	// ChildEnv adds environment variables for the child processes (e.g. GORACE with a
	// log_path under RunDir(ID)).
	ChildEnv func(t Tier) []string
}

var registry = map[string]*Property{}

func Register(p *Property) {
	if _, dup := registry[p.ID]; dup {
		panic("duplicate property " + p.ID)
	}
	registry[p.ID] = p
}

func Lookup(id string) *Property { return registry[id] }

func IDs() []string {
	var ids []string
	for id := range registry {
		ids = append(ids, id)
	}
	sort.Strings(ids)
	return ids
}

// Agg is what a child batch reports and what the parent merges.
type Agg struct {
	Evaluations  int64               `json:"evaluations"`
	NonTrivial   map[uint64]struct{} `json:"-"`
	NonTrivialL  []uint64            `json:"nontrivial"`
	Counts       map[string]int64    `json:"counts"`
	Maxes        map[string]int64    `json:"maxes"`
	Covers       map[string][]string `json:"covers"`
	coverSets    map[string]map[string]struct{}
	Samples      []json.RawMessage `json:"samples"`
	Violations   []Witness         `json:"violations"`
	Inconclusive []string          `json:"inconclusive"`
	Notes        []string          `json:"notes"`
}

func newAgg() *Agg {
	return &Agg{
		NonTrivial: map[uint64]struct{}{},
		Counts:     map[string]int64{},
		Maxes:      map[string]int64{},
		coverSets:  map[string]map[string]struct{}{},
	}
}

func (a *Agg) seal() {
	a.NonTrivialL = a.NonTrivialL[:0]
	for h := range a.NonTrivial {
		a.NonTrivialL = append(a.NonTrivialL, h)
	}
	a.Covers = map[string][]string{}
	for set, items := range a.coverSets {
		l := make([]string, 0, len(items))
		for it := range items {
			l = append(l, it)
		}
		sort.Strings(l)
		a.Covers[set] = l
	}
}

func (a *Agg) unseal() {
	if a.NonTrivial == nil {
		a.NonTrivial = map[uint64]struct{}{}
	}
	for _, h := range a.NonTrivialL {
		a.NonTrivial[h] = struct{}{}
	}
	a.NonTrivialL = nil
	if a.coverSets == nil {
		a.coverSets = map[string]map[string]struct{}{}
	}
	for set, items := range a.Covers {
		m := a.coverSets[set]
		if m == nil {
			m = map[string]struct{}{}
			a.coverSets[set] = m
		}
		for _, it := range items {
			m[it] = struct{}{}
		}
	}
	if a.Counts == nil {
		a.Counts = map[string]int64{}
	}
	if a.Maxes == nil {
		a.Maxes = map[string]int64{}
	}
}

func (a *Agg) merge(b *Agg) {
	b.unseal()
	a.Evaluations += b.Evaluations
	for h := range b.NonTrivial {
		a.NonTrivial[h] = struct{}{}
	}
	for k, v := range b.Counts {
		a.Counts[k] += v
	}
	for k, v := range b.Maxes {
		if v > a.Maxes[k] {
			a.Maxes[k] = v
		}
	}
	for set, items := range b.coverSets {
		m := a.coverSets[set]
		if m == nil {
			m = map[string]struct{}{}
			a.coverSets[set] = m
		}
		for it := range items {
			m[it] = struct{}{}
		}
	}
	for _, s := range b.Samples {
		if len(a.Samples) < 8 {
			a.Samples = append(a.Samples, s)
		}
	}
	a.Violations = append(a.Violations, b.Violations...)
	a.Inconclusive = append(a.Inconclusive, b.Inconclusive...)
	a.Notes = append(a.Notes, b.Notes...)
}

// CoverSize returns the number of distinct items recorded in a cover set.
func (a *Agg) CoverSize(set string) int { return len(a.coverSets[set]) }

// CoverItems returns the sorted items of a cover set.
func (a *Agg) CoverItems(set string) []string {
	var l []string
	for it := range a.coverSets[set] {
		l = append(l, it)
	}
	sort.Strings(l)
	return l
}

// Ctx is handed to a property's Run/Replay in the child process.
type Ctx struct {
	Prop     string
	Seed     int64
	Tier     Tier
	Batch    int
	NBatches int
	Replay   bool

	mu      sync.Mutex
	agg     *Agg
	curFile *os.File
	workDir string
}

// Rand returns a PRNG determined by (seed, property, batch, stream).
func (c *Ctx) Rand(stream string) *rand.Rand {
	h := fnv.New64a()
	fmt.Fprintf(h, "%d|%s|%d|%s", c.Seed, c.Prop, c.Batch, stream)
	return rand.New(rand.NewSource(int64(h.Sum64())))
}

// RandGlobal returns a PRNG determined by (seed, property, stream) only — the same
// in every batch (used to build shared corpora that batches then partition).
func (c *Ctx) RandGlobal(stream string) *rand.Rand {
	h := fnv.New64a()
	fmt.Fprintf(h, "%d|%s|%s", c.Seed, c.Prop, stream)
	return rand.New(rand.NewSource(int64(h.Sum64())))
}

// Mine reports whether systematic case number i belongs to this batch.
func (c *Ctx) Mine(i int) bool { return c.NBatches <= 1 || i%c.NBatches == c.Batch }

// WorkDir returns a scratch directory private to this batch (under /verif/.build).
func (c *Ctx) WorkDir() string {
	if c.workDir == "" {
		c.workDir = filepath.Join(BuildDir, "work", c.Prop, fmt.Sprintf("b%d-%d", c.Batch, os.Getpid()))
		_ = os.RemoveAll(c.workDir)
		if err := os.MkdirAll(c.workDir, 0o755); err != nil {
			panic(err)
		}
	}
	return c.workDir
}

// Begin records the case about to run, so that a process-fatal crash can be
// attributed to it by the parent. v must be JSON-marshalable and replayable.
func (c *Ctx) Begin(v any) {
	if c.curFile == nil {
		return
	}
	b, err := json.Marshal(v)
	if err != nil {
		b = []byte(fmt.Sprintf("%q", fmt.Sprint(v)))
	}
	c.mu.Lock()
	_ = c.curFile.Truncate(0)
	_, _ = c.curFile.WriteAt(b, 0)
	c.mu.Unlock()
}

func (c *Ctx) Eval(n int) {
	c.mu.Lock()
	c.agg.Evaluations += int64(n)
	c.mu.Unlock()
}

// NonTrivial records a distinct non-trivial case by content key.
func (c *Ctx) NonTrivial(key string) {
	h := fnv.New64a()
	h.Write([]byte(key))
	c.mu.Lock()
	c.agg.NonTrivial[h.Sum64()] = struct{}{}
	c.mu.Unlock()
}

func (c *Ctx) Count(name string, n int) {
	c.mu.Lock()
	c.agg.Counts[name] += int64(n)
	c.mu.Unlock()
}

func (c *Ctx) Max(name string, v int64) {
	c.mu.Lock()
	if v > c.agg.Maxes[name] {
		c.agg.Maxes[name] = v
	}
	c.mu.Unlock()
}

// Cover records that an item of a named coverage set was observed.
func (c *Ctx) Cover(set, item string) {
	c.mu.Lock()
	m := c.agg.coverSets[set]
	if m == nil {
		m = map[string]struct{}{}
		c.agg.coverSets[set] = m
	}
	m[item] = struct{}{}
	c.mu.Unlock()
}

// Sample keeps a few actual cases for the evidence file.
func (c *Ctx) Sample(v any) {
	c.mu.Lock()
	defer c.mu.Unlock()
	if len(c.agg.Samples) >= 4 {
		return
	}
	b, err := json.Marshal(v)
	if err == nil {
		c.agg.Samples = append(c.agg.Samples, b)
	}
}

// WantSample reports whether more samples are wanted (avoids building them needlessly).
func (c *Ctx) WantSample() bool {
	c.mu.Lock()
	defer c.mu.Unlock()
	return len(c.agg.Samples) < 4
}

func (c *Ctx) Note(format string, args ...any) {
	c.mu.Lock()
	if len(c.agg.Notes) < 20 {
		c.agg.Notes = append(c.agg.Notes, fmt.Sprintf(format, args...))
	}
	c.mu.Unlock()
}

// Violation records a violation witness. caseV is the replayable case.
func (c *Ctx) Violation(kind, class, summary, expected, observed string, caseV any) {
	raw, _ := json.Marshal(caseV)
	w := Witness{Property: c.Prop, Kind: kind, Class: class, Summary: summary,
		Expected: clip(expected, 4000), Observed: clip(observed, 4000), Case: raw,
		Seed: c.Seed, Tier: c.Tier, Batch: c.Batch}
	c.mu.Lock()
	c.agg.Counts["violations_raw"]++
	if len(c.agg.Violations) < 200 {
		c.agg.Violations = append(c.agg.Violations, w)
	}
	c.mu.Unlock()
	if c.Replay {
		fmt.Printf("REPLAY-VIOLATION kind=%s class=%s %s\n  expected: %s\n  observed: %s\n", kind, class, summary, clip(expected, 600), clip(observed, 600))
	}
}

func (c *Ctx) Inconclusive(reason string) {
	c.mu.Lock()
	c.agg.Counts["inconclusive_cases"]++
	if len(c.agg.Inconclusive) < 20 {
		c.agg.Inconclusive = append(c.agg.Inconclusive, reason)
	}
	c.mu.Unlock()
}

func clip(s string, n int) string {
	if len(s) <= n {
		return s
	}
	return s[:n] + fmt.Sprintf("...(+%d bytes)", len(s)-n)
}

// Clip is exported for properties.
func Clip(s string, n int) string { return clip(s, n) }

// HashKey returns a short stable hex hash of s.
func HashKey(s string) string {
	sum := sha256.Sum256([]byte(s))
	return hex.EncodeToString(sum[:8])
}

// Q quotes a byte string compactly for messages.
func Q(s string) string {
	q := fmt.Sprintf("%q", s)
	return clip(q, 300)
}

// JoinNonEmpty joins non-empty strings.
func JoinNonEmpty(sep string, parts ...string) string {
	var l []string
	for _, p := range parts {
		if p != "" {
			l = append(l, p)
		}
	}
	return strings.Join(l, sep)
}
