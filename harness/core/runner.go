package core

import (
	"bytes"
	"context"
	"encoding/json"
	"fmt"
	"os"
	"os/exec"
	"os/signal"
	"path/filepath"
	"runtime"
	"runtime/debug"
	"sort"
	"strconv"
	"strings"
	"sync"
	"syscall"
	"time"
)

// KnownFinding is one entry of /verif/known_findings.json.
type KnownFinding struct {
	Property string `json:"property"`
	Status   string `json:"status"` // "known" | "fixed"
	ID       string `json:"id"`
	Commit   string `json:"commit,omitempty"`
	Match    struct {
		Kind  string `json:"kind"`
		Class string `json:"class"`
	} `json:"match"`
	What string `json:"what"`
}

// loadKnown reads known_findings.json and known_findings.d/*.json (same format).
func loadKnown() []KnownFinding {
	paths := []string{filepath.Join(VerifDir, "known_findings.json")}
	more, _ := filepath.Glob(filepath.Join(VerifDir, "known_findings.d", "*.json"))
	sort.Strings(more)
	paths = append(paths, more...)
	var all []KnownFinding
	for _, path := range paths {
		b, err := os.ReadFile(path)
		if err != nil {
			continue
		}
		var doc struct {
			Findings []KnownFinding `json:"findings"`
		}
		if err := json.Unmarshal(b, &doc); err != nil {
			fmt.Fprintf(os.Stderr, "%s: %v\n", path, err)
			continue
		}
		all = append(all, doc.Findings...)
	}
	return all
}

func envSeed() int64 {
	if s := os.Getenv("VERIF_SEED"); s != "" {
		if n, err := strconv.ParseInt(s, 10, 64); err == nil {
			return n
		}
	}
	return 1
}

// Main is the entry point of cmd/vcheck.
func Main(args []string) int {
	if len(args) >= 1 && args[0] == "--child" {
		return childMain(args[1:])
	}
	if len(args) >= 1 && args[0] == "--list" {
		for _, id := range IDs() {
			fmt.Println(id)
		}
		return 0
	}
	if len(args) < 2 {
		fmt.Fprintln(os.Stderr, "usage: vcheck <ID> quick|thorough | vcheck <ID> --replay <file>")
		return 2
	}
	id := args[0]
	p := Lookup(id)
	if p == nil {
		fmt.Printf("INCONCLUSIVE property=%s reason=unknown-property\n", id)
		return 2
	}
	if args[1] == "--replay" {
		if len(args) < 3 {
			fmt.Fprintln(os.Stderr, "missing replay file")
			return 2
		}
		return replayMain(p, args[2])
	}
	tier := Tier(args[1])
	if t := os.Getenv("VERIF_TIER"); t == string(Quick) || t == string(Thorough) {
		tier = Tier(t)
	}
	if tier != Quick && tier != Thorough {
		fmt.Fprintln(os.Stderr, "tier must be quick or thorough")
		return 2
	}
	return parentMain(p, tier, envSeed())
}

func runDir(id string) string { return filepath.Join(BuildDir, "run", id) }

// RunDir is the per-run scratch directory of a property (recreated by every parent run);
// child logs, race-detector logs etc. live here.
func RunDir(id string) string { return runDir(id) }

func parentMain(p *Property, tier Tier, seed int64) int {
	start := time.Now()
	dir := runDir(p.ID)
	_ = os.RemoveAll(dir)
	if err := os.MkdirAll(dir, 0o755); err != nil {
		fmt.Printf("INCONCLUSIVE property=%s reason=mkdir:%v\n", p.ID, err)
		return 2
	}
	_ = os.RemoveAll(filepath.Join(BuildDir, "work", p.ID))
	if p.Setup != nil {
		if err := p.Setup(tier); err != nil {
			fmt.Printf("INCONCLUSIVE property=%s reason=setup:%v\n", p.ID, err)
			return 2
		}
	}
	nb := 1
	if p.NBatches != nil {
		nb = p.NBatches(tier)
	}
	self, _ := os.Executable()
	if p.Race != nil && p.Race(tier) {
		self = filepath.Join(BuildDir, "vcheck-race")
	}
	timeout := 20 * time.Minute
	if tier == Thorough {
		timeout = 90 * time.Minute
	}
	if p.BatchTimeout != nil {
		timeout = p.BatchTimeout(tier)
	}
	workers := runtime.NumCPU()
	if w := os.Getenv("VERIF_WORKERS"); w != "" {
		if n, err := strconv.Atoi(w); err == nil && n > 0 {
			workers = n
		}
	}
	if workers > nb {
		workers = nb
	}

	total := newAgg()
	var mu sync.Mutex
	var inconclusive []string
	jobs := make(chan int)
	var wg sync.WaitGroup
	for w := 0; w < workers; w++ {
		wg.Add(1)
		go func() {
			defer wg.Done()
			for b := range jobs {
				agg, crash, inc := runChild(self, p, tier, seed, b, nb, timeout, false)
				mu.Lock()
				if agg != nil {
					total.merge(agg)
				}
				if crash != nil {
					total.Violations = append(total.Violations, *crash)
				}
				if inc != "" {
					inconclusive = append(inconclusive, inc)
				}
				mu.Unlock()
			}
		}()
	}
	for b := 0; b < nb; b++ {
		jobs <- b
	}
	close(jobs)
	wg.Wait()
	inconclusive = append(inconclusive, total.Inconclusive...)

	if p.Finish != nil {
		p.Finish(total, tier)
	}

	// Floors: a run that observed too little is inconclusive, never "held".
	if p.Floors != nil {
		for name, min := range p.Floors(tier) {
			var have int
			switch name {
			case "evaluations":
				have = int(total.Evaluations)
			case "distinct_nontrivial":
				have = len(total.NonTrivial)
			default:
				if n, ok := total.Counts[name]; ok {
					have = int(n)
				} else {
					have = total.CoverSize(name)
				}
			}
			if have < min {
				inconclusive = append(inconclusive, fmt.Sprintf("floor:%s=%d<%d", name, have, min))
			}
		}
	}

	// Classify violations against the known-findings file.
	known := loadKnown()
	knownHits := map[string]int{}
	var unlisted []Witness
	for _, w := range total.Violations {
		matched := false
		for _, k := range known {
			if k.Property == p.ID && k.Status == "known" && k.Match.Kind == w.Kind && k.Match.Class == w.Class && w.Class != "" {
				knownHits[k.ID]++
				matched = true
				break
			}
		}
		if !matched {
			unlisted = append(unlisted, w)
		}
	}

	wall := time.Since(start).Seconds()
	writeEvidence(p, tier, seed, total, len(unlisted), knownHits, inconclusive, wall)

	for _, k := range known {
		if n := knownHits[k.ID]; n > 0 {
			fmt.Printf("KNOWN-FINDING: property=%s %s [%s, %d witnesses]\n", p.ID, k.What, k.ID, n)
		}
	}
	if len(unlisted) > 0 {
		seen := map[string]bool{}
		printed := 0
		for _, w := range unlisted {
			path := writeReplay(w)
			key := w.Kind + "|" + w.Class
			if seen[key] && printed >= 5 {
				continue
			}
			seen[key] = true
			if printed < 25 {
				fmt.Printf("VIOLATION property=%s replay=%s\n", p.ID, path)
				fmt.Printf("  kind=%s class=%s %s\n", w.Kind, w.Class, clip(w.Summary, 500))
				printed++
			}
		}
		fmt.Printf("%s: %d unlisted violation(s) in %d evaluations (%.1fs)\n", p.ID, len(unlisted), total.Evaluations, wall)
		return 1
	}
	if len(inconclusive) > 0 {
		sort.Strings(inconclusive)
		fmt.Printf("INCONCLUSIVE property=%s reason=%s\n", p.ID, clip(strings.Join(inconclusive, ";"), 1000))
		return 2
	}
	fmt.Printf("%s %s seed=%d: held on %d evaluations, %d distinct non-trivial cases (%.1fs)\n",
		p.ID, tier, seed, total.Evaluations, len(total.NonTrivial), wall)
	return 0
}

// runChild runs one batch in a child process and returns its aggregate; a process-fatal
// end of the child is turned into a crash witness for the case it had begun.
func runChild(self string, p *Property, tier Tier, seed int64, batch, nb int, timeout time.Duration, solo bool) (*Agg, *Witness, string) {
	dir := runDir(p.ID)
	base := filepath.Join(dir, fmt.Sprintf("b%04d", batch))
	outF, _ := os.Create(base + ".out")
	errF, _ := os.Create(base + ".err")
	defer outF.Close()
	defer errF.Close()
	ctx, cancel := context.WithTimeout(context.Background(), timeout)
	defer cancel()
	cmd := exec.Command(self, "--child", p.ID, string(tier), strconv.FormatInt(seed, 10),
		strconv.Itoa(batch), strconv.Itoa(nb), base)
	cmd.Stdout = outF
	cmd.Stderr = errF
	cmd.Env = append(os.Environ(), "GOTRACEBACK=all", "GOMEMLIMIT=6GiB")
	if p.ChildEnv != nil {
		cmd.Env = append(cmd.Env, p.ChildEnv(tier)...)
	}
	cmd.SysProcAttr = &syscall.SysProcAttr{Setpgid: true}
	if err := cmd.Start(); err != nil {
		return nil, nil, "child-start:" + err.Error()
	}
	trackChild(cmd.Process.Pid, true)
	defer trackChild(cmd.Process.Pid, false)
	done := make(chan error, 1)
	go func() { done <- cmd.Wait() }()
	var werr error
	timedOut := false
	select {
	case werr = <-done:
	case <-ctx.Done():
		timedOut = true
		_ = syscall.Kill(-cmd.Process.Pid, syscall.SIGQUIT)
		select {
		case werr = <-done:
		case <-time.After(10 * time.Second):
			_ = syscall.Kill(-cmd.Process.Pid, syscall.SIGKILL)
			werr = <-done
		}
	}
	res, rerr := os.ReadFile(base + ".json")
	if werr == nil && rerr == nil {
		agg := &Agg{}
		if err := json.Unmarshal(res, agg); err != nil {
			return nil, nil, fmt.Sprintf("child-result-batch%d:%v", batch, err)
		}
		return agg, nil, ""
	}
	cur, _ := os.ReadFile(base + ".cur")
	stderrTail := tailFile(base+".err", 6000)
	if timedOut {
		return nil, nil, fmt.Sprintf("watchdog-batch%d-after-%s(case=%s)", batch, timeout, clip(string(cur), 300))
	}
	// Process-fatal end: attribute to the begun case.
	w := &Witness{Property: p.ID, Kind: "process-fatal", Class: fatalClass(stderrTail),
		Summary:  fmt.Sprintf("child batch %d died (%v): %s", batch, werr, firstLine(stderrTail)),
		Observed: stderrTail, Case: json.RawMessage(cur), Seed: seed, Tier: tier, Batch: batch}
	if len(cur) == 0 || !json.Valid(cur) {
		w.Case = nil
	}
	return nil, w, ""
}

// Children run in process groups of their own (so that a watchdog can kill a whole batch). If
// the parent is told to stop (SIGTERM from `timeout`, SIGINT, SIGHUP) it takes them along instead
// of leaving them running as orphans.
var (
	childMu   sync.Mutex
	childPids = map[int]bool{}
	childOnce sync.Once
)

func trackChild(pid int, add bool) {
	childOnce.Do(func() {
		ch := make(chan os.Signal, 1)
		signal.Notify(ch, syscall.SIGTERM, syscall.SIGINT, syscall.SIGHUP)
		go func() {
			<-ch
			childMu.Lock()
			for p := range childPids {
				_ = syscall.Kill(-p, syscall.SIGKILL)
			}
			childMu.Unlock()
			os.Exit(2)
		}()
	})
	childMu.Lock()
	if add {
		childPids[pid] = true
	} else {
		delete(childPids, pid)
	}
	childMu.Unlock()
}

func fatalClass(stderr string) string {
	for _, line := range strings.Split(stderr, "\n") {
		if strings.HasPrefix(line, "fatal error:") || strings.HasPrefix(line, "panic:") {
			return clip(line, 120)
		}
	}
	return ""
}

func firstLine(s string) string {
	for _, line := range strings.Split(s, "\n") {
		if strings.HasPrefix(line, "fatal error:") || strings.HasPrefix(line, "panic:") {
			return line
		}
	}
	if i := strings.IndexByte(s, '\n'); i >= 0 {
		return s[:i]
	}
	return s
}

func tailFile(path string, n int) string {
	b, err := os.ReadFile(path)
	if err != nil {
		return ""
	}
	// keep the head (where "fatal error:" / "panic:" lines are) rather than the tail
	if len(b) > n {
		b = b[:n]
	}
	return string(b)
}

func childMain(args []string) int {
	if len(args) < 6 {
		fmt.Fprintln(os.Stderr, "bad child args")
		return 2
	}
	p := Lookup(args[0])
	if p == nil {
		return 2
	}
	seed, _ := strconv.ParseInt(args[2], 10, 64)
	batch, _ := strconv.Atoi(args[3])
	nb, _ := strconv.Atoi(args[4])
	base := args[5]
	c := &Ctx{Prop: p.ID, Seed: seed, Tier: Tier(args[1]), Batch: batch, NBatches: nb, agg: newAgg()}
	c.curFile, _ = os.Create(base + ".cur")
	debug.SetMaxStack(512 << 20)
	p.Run(c)
	if c.workDir != "" {
		_ = os.RemoveAll(c.workDir)
	}
	c.agg.seal()
	b, err := json.Marshal(c.agg)
	if err != nil {
		fmt.Fprintln(os.Stderr, "marshal:", err)
		return 2
	}
	if err := os.WriteFile(base+".json", b, 0o644); err != nil {
		return 2
	}
	return 0
}

func replayMain(p *Property, path string) int {
	b, err := os.ReadFile(path)
	if err != nil {
		fmt.Fprintln(os.Stderr, err)
		return 2
	}
	var w Witness
	if err := json.Unmarshal(b, &w); err != nil {
		fmt.Fprintln(os.Stderr, err)
		return 2
	}
	if p.Replay == nil {
		fmt.Println("replay not supported for", p.ID)
		return 2
	}
	if p.Setup != nil {
		if err := p.Setup(w.Tier); err != nil {
			fmt.Println("setup:", err)
			return 2
		}
	}
	c := &Ctx{Prop: p.ID, Seed: w.Seed, Tier: w.Tier, Batch: w.Batch, NBatches: 1, agg: newAgg(), Replay: true}
	fmt.Printf("replaying %s (kind=%s class=%s)\n  recorded: %s\n", path, w.Kind, w.Class, clip(w.Summary, 400))
	p.Replay(c, w.Case)
	if c.workDir != "" {
		_ = os.RemoveAll(c.workDir)
	}
	if len(c.agg.Violations) > 0 {
		fmt.Printf("VIOLATION property=%s replay=%s\n", p.ID, path)
		return 1
	}
	fmt.Println("replay: property held on this case")
	return 0
}

func writeReplay(w Witness) string {
	dir := filepath.Join(VerifDir, "replay", w.Property)
	_ = os.MkdirAll(dir, 0o755)
	b, _ := json.MarshalIndent(w, "", " ")
	path := filepath.Join(dir, HashKey(string(b))+".json")
	_ = os.WriteFile(path, b, 0o644)
	return path
}

func writeEvidence(p *Property, tier Tier, seed int64, a *Agg, violations int, knownHits map[string]int, inconclusive []string, wall float64) {
	cov := map[string]any{
		"evaluations":         a.Evaluations,
		"distinct_nontrivial": len(a.NonTrivial),
		"rule":                p.Rule,
	}
	samples := make([]any, 0, len(a.Samples))
	for _, s := range a.Samples {
		var v any
		if json.Unmarshal(s, &v) == nil {
			samples = append(samples, v)
		}
	}
	if len(samples) == 0 {
		samples = append(samples, "no sample recorded")
	}
	cov["samples"] = samples
	if p.Explanation != "" {
		cov["explanation"] = p.Explanation
	}
	if p.Exhaustive != nil && p.Exhaustive(tier) {
		cov["exhaustive"] = true
	}
	counters := map[string]int64{}
	for k, v := range a.Counts {
		counters[k] = v
	}
	cov["counters"] = counters
	if len(a.Maxes) > 0 {
		cov["maxima"] = a.Maxes
	}
	sets := map[string]any{}
	for set := range a.coverSets {
		items := a.CoverItems(set)
		entry := map[string]any{"size": len(items)}
		if len(items) <= 400 {
			entry["items"] = items
		} else {
			entry["items_sample"] = items[:400]
		}
		sets[set] = entry
	}
	cov["cover_sets"] = sets
	if len(knownHits) > 0 {
		cov["known_finding_witnesses"] = knownHits
	}
	if len(inconclusive) > 0 {
		cov["inconclusive"] = inconclusive
	}
	if len(a.Notes) > 0 {
		cov["notes"] = a.Notes
	}
	ev := map[string]any{
		"property_id": p.ID,
		"tier":        tier,
		"seed":        seed,
		"level":       p.Level,
		"coverage":    cov,
		"assumptions": p.Assumptions,
		"wall_s":      wall,
		"violations":  violations,
	}
	var buf bytes.Buffer
	enc := json.NewEncoder(&buf)
	enc.SetIndent("", " ")
	enc.SetEscapeHTML(false)
	_ = enc.Encode(ev)
	_ = os.MkdirAll(filepath.Join(VerifDir, "evidence"), 0o755)
	_ = os.WriteFile(filepath.Join(VerifDir, "evidence", p.ID+".json"), buf.Bytes(), 0o644)
}
