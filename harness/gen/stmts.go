package gen

import (
	"fmt"
	"strings"

	x "verifharness/exprgen"
)

func exprStmt(e *x.E) *Stmt { return &Stmt{K: SExpr, E: e} }

func printStmt(args ...*x.E) *Stmt { return &Stmt{K: SPrint, Args: args} }

// fresh returns a fresh counter variable name (used as loop fuel / loop index).
func (g *G) fresh(prefix string) string {
	g.fuel++
	return fmt.Sprintf("%s%d", prefix, g.fuel)
}

// block generates n statements at nesting depth d.
func (g *G) block(n, d int) []*Stmt {
	var ss []*Stmt
	for i := 0; i < n; i++ {
		ss = append(ss, g.stmt(d)...)
	}
	if len(ss) == 0 {
		ss = append(ss, g.printSome())
	}
	return ss
}

func (g *G) printSome() *Stmt {
	n := 1 + g.R.Intn(3)
	args := make([]*x.E, n)
	for i := range args {
		args[i] = g.anyExpr(g.R.Intn(3))
	}
	return printStmt(args...)
}

func (g *G) outputStmt() *Stmt {
	var s *Stmt
	switch r := g.R.Intn(10); {
	case r < 5:
		s = g.printSome()
	case r < 6:
		s = &Stmt{K: SPrint} // bare print ($0)
	default:
		f := g.pick(fmtPool)
		args := []*x.E{x.Str(f + "\n")}
		for i := 0; i < strings.Count(strings.ReplaceAll(f, "%%", ""), "%"); i++ {
			args = append(args, g.fmtArg(f, i, 1))
		}
		s = &Stmt{K: SPrintf, Args: args}
	}
	if g.F.Files && len(g.Env.OutFiles) > 0 && g.chance(18) {
		s.Redirect = g.pick([]string{">", ">", ">>"})
		s.Dest = g.fileNameExpr(g.pick(g.Env.OutFiles))
	}
	return s
}

// fileNameExpr spells a file name either as a literal or computed at run time.
func (g *G) fileNameExpr(name string) *x.E {
	if len(name) > 2 && g.chance(30) {
		cut := 1 + g.R.Intn(len(name)-1)
		return x.Group(x.Bin("cat", x.Str(name[:cut]), x.Str(name[cut:])))
	}
	return x.Str(name)
}

func (g *G) stmt(d int) []*Stmt {
	r := g.R.Intn(100)
	switch {
	case r < 22:
		return []*Stmt{g.outputStmt()}
	case r < 40:
		// statement-position assignment / increment / augmented assignment on every lvalue kind
		lv := g.lvalue()
		switch g.R.Intn(4) {
		case 0:
			return []*Stmt{exprStmt(x.Assign("=", lv, g.anyExpr(2)))}
		case 1:
			op := g.pick([]string{"+=", "-=", "*=", "/=", "%=", "^="})
			rhs := g.numExpr(1)
			if op == "/=" || op == "%=" {
				if !g.F.Errors || g.chance(90) {
					rhs = x.Bin("+", x.Call("length", g.strExpr(0)), x.Num(1))
				}
			}
			if op == "^=" {
				rhs = x.Num(float64(g.R.Intn(3)))
			}
			return []*Stmt{exprStmt(x.Assign(op, lv, rhs))}
		default:
			return []*Stmt{exprStmt(x.Incr(g.pick([]string{"++", "--"}), g.chance(50), lv))}
		}
	case r < 46:
		return []*Stmt{exprStmt(g.anyExpr(2))}
	case r < 56 && d > 0:
		s := &Stmt{K: SIf, E: g.condExpr(1), Body: g.block(1+g.R.Intn(2), d-1)}
		if g.chance(55) {
			s.Else = g.block(1+g.R.Intn(2), d-1)
		}
		return []*Stmt{s}
	case r < 62 && d > 0:
		return []*Stmt{g.forLoop(d)}
	case r < 66 && d > 0:
		return g.whileLoop(d)
	case r < 69 && d > 0:
		return g.doLoop(d)
	case r < 74 && d > 0:
		return []*Stmt{g.forIn(d)}
	case r < 77 && g.inLoop > 0:
		if g.chance(50) {
			return []*Stmt{{K: SIf, E: g.condExpr(0), Body: []*Stmt{{K: SBreak}}}}
		}
		return []*Stmt{{K: SIf, E: g.condExpr(0), Body: []*Stmt{{K: SContinue}}}}
	case r < 80:
		if g.chance(30) {
			return []*Stmt{{K: SDelete, Arr: g.arrayName()}}
		}
		return []*Stmt{{K: SDelete, Arr: g.arrayName(), Args: []*x.E{g.subscript()}}}
	case r < 83 && g.F.Funcs && len(g.funcs) > 0:
		return []*Stmt{exprStmt(g.call(1))}
	case r < 85 && g.inFunc:
		if g.chance(70) {
			return []*Stmt{{K: SIf, E: g.condExpr(0), Body: []*Stmt{{K: SReturn, E: g.anyExpr(1)}}}}
		}
		return []*Stmt{{K: SIf, E: g.condExpr(0), Body: []*Stmt{{K: SReturn}}}}
	case r < 88 && g.F.Specials:
		return []*Stmt{g.specialAssign()}
	case r < 90 && g.F.MainLoop && (g.inMain || g.inFunc) && g.inForIn == 0:
		k := SNext
		if g.chance(30) {
			k = SNextfile
		}
		return []*Stmt{{K: SIf, E: g.condExpr(0), Body: []*Stmt{{K: k}}}}
	case r < 92 && g.F.Exit && g.inForIn == 0:
		s := &Stmt{K: SExit}
		if g.chance(70) {
			s.E = g.smallInt()
		}
		return []*Stmt{{K: SIf, E: g.condExpr(0), Body: []*Stmt{s}}}
	case r < 96 && (g.F.Files || g.F.MainLoop || g.F.Commands):
		return g.ioStmts()
	case r < 98 && d > 0:
		return []*Stmt{{K: SBlock, Body: g.block(1+g.R.Intn(2), d-1)}}
	}
	return []*Stmt{g.outputStmt()}
}

func (g *G) specialAssign() *Stmt {
	switch g.R.Intn(12) {
	case 0:
		return exprStmt(x.Assign("=", x.Var("NF"), g.pick3(x.Num(2), x.Bin("+", x.Var("NF"), x.Num(1)), x.Num(0))))
	case 1:
		return exprStmt(x.Assign("=", x.Field(x.Num(0)), g.strExpr(1)))
	case 2:
		return exprStmt(x.Assign("=", x.Var("FS"), x.Str(g.pick([]string{" ", ",", ":", "o", "[0-9]", " +"}))))
	case 3:
		return exprStmt(x.Assign("=", x.Var("OFS"), x.Str(g.pick([]string{" ", "-", "", "::"}))))
	case 4:
		return exprStmt(x.Assign("=", x.Var("ORS"), x.Str(g.pick([]string{"\n", ";\n", "|"}))))
	case 5:
		return exprStmt(x.Assign("=", x.Var("SUBSEP"), x.Str(g.pick([]string{":", "\x1c", ""}))))
	case 6:
		return exprStmt(x.Assign("=", x.Var("CONVFMT"), x.Str(g.pick([]string{"%.6g", "%.2g", "%.3f", "%.10g"}))))
	case 7:
		return exprStmt(x.Assign("=", x.Var("OFMT"), x.Str(g.pick([]string{"%.6g", "%.2g", "%.3f", "%.1e"}))))
	case 8:
		return exprStmt(x.Assign("=", x.Var("NR"), g.smallInt()))
	case 9:
		return exprStmt(x.Incr("++", false, x.Var("NR")))
	case 10:
		return exprStmt(x.Assign("+=", x.Var("FNR"), x.Num(10)))
	}
	return exprStmt(x.Assign("=", x.Field(g.fieldIndexForAssign()), g.anyExpr(1)))
}

func (g *G) pick3(a, b, c *x.E) *x.E { return []*x.E{a, b, c}[g.R.Intn(3)] }

func (g *G) forLoop(d int) *Stmt {
	i := g.fresh("i")
	n := 1 + g.R.Intn(4)
	var cond *x.E
	switch g.R.Intn(4) {
	case 0:
		cond = x.Bin("<=", x.Var(i), x.Num(float64(n)))
	case 1:
		cond = x.Bin("!=", x.Var(i), x.Num(float64(n)))
	case 2:
		cond = x.Bin(">", x.Num(float64(n)), x.Var(i))
	default:
		cond = x.Bin("<", x.Var(i), x.Num(float64(n)))
	}
	var post *Stmt
	switch g.R.Intn(3) {
	case 0:
		post = exprStmt(x.Incr("++", true, x.Var(i)))
	case 1:
		post = exprStmt(x.Assign("+=", x.Var(i), x.Num(1)))
	default:
		post = exprStmt(x.Incr("++", false, x.Var(i)))
	}
	g.inLoop++
	body := g.block(1+g.R.Intn(2), d-1)
	g.inLoop--
	if g.chance(30) {
		body = append(body, printStmt(x.Str("i"), x.Var(i)))
	}
	return &Stmt{K: SFor, Init: exprStmt(x.Assign("=", x.Var(i), x.Num(0))), E: cond, Post: post, Body: body}
}

// whileLoop: the fuel counter is advanced first in the body, so continue cannot skip it.
func (g *G) whileLoop(d int) []*Stmt {
	w := g.fresh("w")
	n := 1 + g.R.Intn(4)
	var cond *x.E
	if g.chance(50) {
		cond = x.Bin("<", x.Var(w), x.Num(float64(n)))
	} else {
		cond = x.Bin("&&", x.Bin("<", x.Var(w), x.Num(float64(n))), x.Group(x.Bin("||", g.condExpr(0), x.Num(1))))
	}
	g.inLoop++
	body := append([]*Stmt{exprStmt(x.Incr("++", g.chance(50), x.Var(w)))}, g.block(1+g.R.Intn(2), d-1)...)
	g.inLoop--
	return []*Stmt{exprStmt(x.Assign("=", x.Var(w), x.Num(0))), {K: SWhile, E: cond, Body: body}}
}

func (g *G) doLoop(d int) []*Stmt {
	w := g.fresh("w")
	n := 1 + g.R.Intn(3)
	g.inLoop++
	body := append([]*Stmt{exprStmt(x.Assign("+=", x.Var(w), x.Num(1)))}, g.block(1+g.R.Intn(2), d-1)...)
	g.inLoop--
	rel := g.pick([]string{"<", "<=", "!="})
	return []*Stmt{exprStmt(x.Assign("=", x.Var(w), x.Num(0))), {K: SDo, E: x.Bin(rel, x.Var(w), x.Num(float64(n))), Body: body}}
}

// forIn bodies are order-insensitive: they only accumulate commutative quantities.
func (g *G) forIn(d int) *Stmt {
	k := g.fresh("k")
	arr := g.arrayName()
	acc := g.scalarName()
	var body []*Stmt
	n := 1 + g.R.Intn(3)
	for i := 0; i < n; i++ {
		switch g.R.Intn(6) {
		case 0:
			body = append(body, exprStmt(x.Assign("+=", x.Var(acc), x.Index(arr, x.Var(k)))))
		case 1:
			body = append(body, exprStmt(x.Incr("++", g.chance(50), x.Var(acc))))
		case 2:
			body = append(body, exprStmt(x.Assign("+=", x.Var(acc), x.Call("length", x.Var(k)))))
		case 3:
			body = append(body, &Stmt{K: SIf, E: x.In(g.arrayName(), x.Var(k)), Body: []*Stmt{exprStmt(x.Assign("+=", x.Var(acc), x.Num(2)))}})
		case 4:
			body = append(body, &Stmt{K: SIf, E: x.Bin(g.pick([]string{"<", ">=", "=="}), x.Index(arr, x.Var(k)), g.forInOperand()), Body: []*Stmt{{K: SContinue}}})
		default:
			body = append(body, exprStmt(x.Assign("+=", x.Var(acc), x.Bin("*", x.Index(arr, x.Var(k)), x.Num(2)))))
		}
	}
	return &Stmt{K: SForIn, Var: k, Arr: arr, Body: body}
}

// forInOperand is an operand for a comparison inside a for-in body: it must not create an
// element of any array (whether an element inserted during the walk is visited is unspecified)
// and must not call anything, nor read a variable the body changes.
func (g *G) forInOperand() *x.E {
	// (not a variable either: the body's accumulator may be that variable, which would make the
	// result depend on the order of the walk)
	return x.Num(float64(g.R.Intn(6)))
}

// ioStmts: getline forms, file round trips, commands. Command output streams are closed
// right after use so that the order of output is determined by the program.
func (g *G) ioStmts() []*Stmt {
	var opts []func() []*Stmt
	v := func() *x.E { return x.Var(g.scalarName()) }
	target := func() *x.E {
		switch g.R.Intn(5) {
		case 0:
			return nil
		case 1:
			return x.Index(g.arrayName(), g.subscript())
		case 2:
			return x.Field(x.Num(float64(1 + g.R.Intn(3))))
		}
		return v()
	}
	res := func(e *x.E) []*Stmt {
		// use the result so that it is observable
		switch g.R.Intn(3) {
		case 0:
			return []*Stmt{printStmt(x.Str("gl"), x.Group(e))}
		case 1:
			return []*Stmt{{K: SIf, E: x.Bin(">", x.Group(e), x.Num(0)), Body: []*Stmt{g.printSome()}}}
		}
		return []*Stmt{exprStmt(x.Assign("=", v(), e))}
	}
	if g.F.Files && len(g.Env.InFiles) > 0 {
		opts = append(opts, func() []*Stmt {
			name := g.pick(g.Env.InFiles)
			if g.chance(10) && g.Env.Missing != "" {
				name = g.Env.Missing
			}
			ss := res(x.Getline(nil, target(), g.fileNameExpr(name)))
			if g.chance(30) {
				ss = append(ss, printStmt(x.Str("cl"), x.Call("close", x.Str(name))))
			}
			return ss
		})
		opts = append(opts, func() []*Stmt {
			// read a whole file with a bounded loop
			name := g.pick(g.Env.InFiles)
			w := g.fresh("w")
			line := g.scalarName()
			cond := x.Bin("&&", x.Bin("<", x.Incr("++", false, x.Var(w)), x.Num(6)), x.Bin(">", x.Group(x.Getline(nil, x.Var(line), x.Str(name))), x.Num(0)))
			return []*Stmt{exprStmt(x.Assign("=", x.Var(w), x.Num(0))), {K: SWhile, E: cond, Body: []*Stmt{printStmt(x.Str("ln"), x.Var(line))}}, exprStmt(x.Call("close", x.Str(name)))}
		})
	}
	if g.F.Files && len(g.Env.OutFiles) > 0 {
		opts = append(opts, func() []*Stmt {
			// write, close, read back
			name := g.pick(g.Env.OutFiles)
			line := g.scalarName()
			return []*Stmt{
				{K: SPrint, Args: []*x.E{g.anyExpr(1), g.anyExpr(0)}, Redirect: g.pick([]string{">", ">>"}), Dest: x.Str(name)},
				printStmt(x.Str("cl"), x.Call("close", x.Str(name))),
				printStmt(x.Str("rb"), x.Group(x.Getline(nil, x.Var(line), x.Str(name))), x.Var(line)),
				exprStmt(x.Call("close", x.Str(name))),
			}
		})
		opts = append(opts, func() []*Stmt {
			return []*Stmt{printStmt(x.Str("ff"), x.Call("fflush", x.Str(g.pick(g.Env.OutFiles))))}
		})
	}
	if g.F.MainLoop && g.inMain && g.inForIn == 0 {
		opts = append(opts, func() []*Stmt { return res(x.Getline(nil, target(), nil)) })
		opts = append(opts, func() []*Stmt { return res(x.Getline(nil, nil, nil)) })
	}
	if g.F.Commands {
		opts = append(opts, func() []*Stmt {
			cmd := g.pick([]string{"emit:hello", "lines:c:3", "emit:1 2 3;emit:x y", "exit:3", "emit:q;exit:2", "emitraw:no newline"})
			ss := res(x.Getline(x.Str(cmd), target(), nil))
			if g.chance(60) {
				// the status close() reports for a command that is closed before it finished
				// writing depends on timing (SIGPIPE or not): it is not printed
				ss = append(ss, exprStmt(x.Call("close", x.Str(cmd))))
			}
			return ss
		})
		opts = append(opts, func() []*Stmt {
			cmd := g.pick([]string{"cat", "count", "cat;exit:4", "emit:pre;cat"})
			return []*Stmt{
				// arguments are leaves: nothing may print to stdout while the command runs
				{K: SPrint, Args: []*x.E{g.strExpr(0), g.strLit()}, Redirect: "|", Dest: x.Str(cmd)},
				{K: SPrint, Args: []*x.E{g.strExpr(0)}, Redirect: "|", Dest: x.Str(cmd)},
				printStmt(x.Str("cl"), x.Call("close", x.Str(cmd))),
			}
		})
		opts = append(opts, func() []*Stmt {
			cmd := g.pick([]string{"emit:sys", "exit:5", "lines:s:2;exit:1", "emit:a b"})
			return []*Stmt{printStmt(x.Str("sy"), x.Call("system", x.Str(cmd)))}
		})
	}
	if len(opts) == 0 {
		return []*Stmt{g.outputStmt()}
	}
	return opts[g.R.Intn(len(opts))]()
}

// genFuncs creates the function table: each function only calls earlier ones; one function
// may be recursive with a decreasing depth parameter.
func (g *G) genFuncs(n int) {
	for i := 0; i < n; i++ {
		f := &Func{Name: fmt.Sprintf("f%d", i)}
		np := g.R.Intn(3)
		for j := 0; j < np; j++ {
			f.Params = append(f.Params, fmt.Sprintf("p%d", j))
		}
		if g.chance(40) {
			f.Params = append(f.Params, "a0")
		}
		recursive := g.chance(25)
		if recursive {
			f.Params = append(f.Params, "d0")
		}
		nl := g.R.Intn(3)
		for j := 0; j < nl; j++ {
			f.Params = append(f.Params, fmt.Sprintf("l%d", j))
		}
		if g.chance(25) {
			f.Params = append(f.Params, "la0")
		}
		// scope
		g.inFunc = true
		g.locals, g.localArrays = nil, nil
		for _, p := range f.Params {
			switch {
			case strings.HasPrefix(p, "la"), strings.HasPrefix(p, "a"):
				g.localArrays = append(g.localArrays, p)
			case strings.HasPrefix(p, "d"):
				// depth parameter: not used as a general scalar
			default:
				g.locals = append(g.locals, p)
			}
		}
		saveLoop := g.inLoop
		g.inLoop = 0
		body := g.block(1+g.R.Intn(3), 2)
		if recursive {
			var args []*x.E
			for _, p := range f.Params {
				switch {
				case strings.HasPrefix(p, "l"):
				case strings.HasPrefix(p, "a"):
					args = append(args, x.Var(p))
				case strings.HasPrefix(p, "d"):
					args = append(args, x.Bin("-", x.Var("d0"), x.Num(1)))
				default:
					args = append(args, g.anyExpr(0))
				}
			}
			rec := &Stmt{K: SIf, E: x.Bin(">", x.Var("d0"), x.Num(0)), Body: []*Stmt{exprStmt(x.Assign("=", x.Var(g.scalarName()), x.User(f.Name, args...)))}}
			pos := g.R.Intn(len(body) + 1)
			body = append(body[:pos], append([]*Stmt{rec}, body[pos:]...)...)
		}
		if g.chance(70) {
			body = append(body, &Stmt{K: SReturn, E: g.anyExpr(1)})
		}
		g.inLoop = saveLoop
		f.Body = body
		g.inFunc = false
		g.locals, g.localArrays = nil, nil
		g.funcs = append(g.funcs, f)
	}
}

// Program generates a whole program.
func (g *G) Program() *Program {
	p := &Program{}
	if g.F.Funcs {
		g.genFuncs(g.R.Intn(4))
		p.Funcs = g.funcs
	}
	nb := 1
	if g.chance(15) {
		nb = 2
	}
	if g.F.MainLoop && g.chance(25) {
		nb = 0
	}
	for i := 0; i < nb; i++ {
		p.Begin = append(p.Begin, g.block(1+g.R.Intn(4), 2))
	}
	if g.F.MainLoop {
		nr := 1 + g.R.Intn(3)
		for i := 0; i < nr; i++ {
			r := &Rule{}
			switch g.R.Intn(8) {
			case 0, 1:
				// no pattern
			case 2:
				r.Pattern = []*x.E{x.Regex(g.pick(rePool))}
			case 3:
				// range pattern, possibly opening and closing on the same record
				g.inMain = true
				r.Pattern = []*x.E{g.rangeEnd(), g.rangeEnd()}
				g.inMain = false
			default:
				g.inMain = true
				r.Pattern = []*x.E{g.condExpr(1)}
				g.inMain = false
			}
			if len(r.Pattern) > 0 && g.chance(15) {
				r.NoBody = true
			} else {
				g.inMain = true
				r.Body = g.block(1+g.R.Intn(3), 2)
				g.inMain = false
			}
			p.Rules = append(p.Rules, r)
		}
		if g.chance(70) {
			end := g.block(1+g.R.Intn(3), 1)
			if g.chance(50) {
				end = append(end, printStmt(x.Str("END"), x.Var("NR"), x.Var("NF"), x.Field(x.Num(0)), x.Var("FILENAME")))
			}
			p.End = append(p.End, end)
		}
	}
	return p
}

func (g *G) rangeEnd() *x.E {
	switch g.R.Intn(5) {
	case 0:
		return x.Regex(g.pick(rePool))
	case 1:
		return x.Bin("==", x.Var("NR"), x.Num(float64(1+g.R.Intn(5))))
	case 2:
		return x.Bin("==", x.Var("FNR"), x.Num(float64(1+g.R.Intn(3))))
	case 3:
		return x.Bin(">", x.Field(x.Num(float64(1+g.R.Intn(2)))), x.Num(float64(g.R.Intn(10))))
	}
	return g.condExpr(0)
}

// Input generates input text of n records.
func (g *G) Input(n int) string {
	var sb strings.Builder
	words := []string{"a", "b", "foo", "bar", "10", "2", "3.5", "x1", "0", "-4", "abc", "1e2", "o", "aa", "7", "zz", "100", "0.5"}
	for i := 0; i < n; i++ {
		nf := g.R.Intn(6)
		if g.chance(8) {
			nf = 0
		}
		if g.chance(10) {
			sb.WriteString(g.pick([]string{" ", "  ", "\t"}))
		}
		for j := 0; j < nf; j++ {
			if j > 0 {
				sb.WriteString(g.pick([]string{" ", " ", "  ", "\t", ",", ":"}))
			}
			sb.WriteString(g.pick(words))
		}
		if g.chance(8) {
			sb.WriteString(" ")
		}
		if i < n-1 || g.chance(85) {
			sb.WriteString("\n")
		}
	}
	return sb.String()
}
