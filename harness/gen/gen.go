// Package gen generates AWK programs as an IR (statements over exprgen expression trees) and
// prints them in several semantically equivalent spellings. Generated programs terminate by
// construction (loops carry constant bounds or fuel counters, recursion carries a depth
// argument), and their output does not depend on for-in order, rand, time or the environment.
package gen

import (
	"fmt"
	"math/rand"
	"strings"

	x "verifharness/exprgen"
)

type SKind int

const (
	SExpr SKind = iota
	SPrint
	SPrintf
	SIf
	SWhile
	SDo
	SFor
	SForIn
	SBreak
	SContinue
	SNext
	SNextfile
	SExit
	SReturn
	SDelete
	SBlock
)

type Stmt struct {
	K        SKind
	E        *x.E   // expression / condition / exit status / return value
	Args     []*x.E // print / printf arguments, delete subscripts
	Redirect string // "", ">", ">>", "|"
	Dest     *x.E
	Init     *Stmt // for
	Post     *Stmt
	Body     []*Stmt
	Else     []*Stmt
	Var, Arr string // for-in, delete
}

type Func struct {
	Name   string
	Params []string
	Body   []*Stmt
}

type Rule struct {
	Pattern []*x.E // 0, 1 or 2 (range)
	Body    []*Stmt
	NoBody  bool // pattern only: default action
}

type Program struct {
	Funcs []*Func
	Begin [][]*Stmt
	Rules []*Rule
	End   [][]*Stmt
}

// Style selects one of the equivalent spellings.
type Style struct {
	Full       bool // every operand parenthesised; statement-position expressions and conditions wrapped in parentheses
	NegateCond bool // if (c) A else B  ->  if (!(c)) B else A ;  c ? a : b -> !(c) ? b : a (statement level ifs only)
	LongIncr   bool // statement x++ / ++x / x-- -> x += 1 / x -= 1 (simple lvalues only)
	Compact    bool // fewer newlines: statements separated by ';'
}

func (p *Program) Source(st Style) string {
	var sb strings.Builder
	w := &writer{sb: &sb, st: st}
	for _, f := range p.Funcs {
		fmt.Fprintf(&sb, "function %s(%s) {\n", f.Name, strings.Join(f.Params, ", "))
		w.stmts(f.Body, 1)
		sb.WriteString("}\n")
	}
	for _, b := range p.Begin {
		sb.WriteString("BEGIN {\n")
		w.stmts(b, 1)
		sb.WriteString("}\n")
	}
	for _, r := range p.Rules {
		for i, pe := range r.Pattern {
			if i > 0 {
				sb.WriteString(", ")
			}
			sb.WriteString(w.expr(pe, x.Ctx{}))
		}
		if r.NoBody {
			sb.WriteString("\n")
			continue
		}
		if len(r.Pattern) > 0 {
			sb.WriteString(" ")
		}
		sb.WriteString("{\n")
		w.stmts(r.Body, 1)
		sb.WriteString("}\n")
	}
	for _, b := range p.End {
		sb.WriteString("END {\n")
		w.stmts(b, 1)
		sb.WriteString("}\n")
	}
	return sb.String()
}

type writer struct {
	sb *strings.Builder
	st Style
}

func (w *writer) expr(e *x.E, cx x.Ctx) string {
	if w.st.Full {
		return x.Full(e, cx)
	}
	return x.Min(e, cx)
}

// cond prints a condition; in Full style it is wrapped once more so that the compiler's fused
// compare-and-branch shortcut does not apply.
func (w *writer) cond(e *x.E) string {
	s := w.expr(e, x.Ctx{})
	if w.st.Full {
		return "(" + s + ")"
	}
	return s
}

func simpleLvalue(e *x.E) bool {
	switch e.K {
	case x.KVar:
		return true
	case x.KIndex, x.KField:
		for _, k := range e.Kids {
			if k.K != x.KNum && k.K != x.KStr && k.K != x.KVar {
				return false
			}
		}
		return true
	}
	return false
}

func (w *writer) stmtExpr(e *x.E) string {
	if w.st.LongIncr && e.K == x.KIncr && simpleLvalue(e.Kids[0]) {
		op := "+="
		if e.Op == "--" {
			op = "-="
		}
		e = x.Assign(op, e.Kids[0], x.Num(1))
	}
	s := w.expr(e, x.Ctx{})
	if w.st.Full {
		switch e.K {
		case x.KAssign, x.KIncr:
			return "(" + s + ")"
		}
	}
	return s
}

func (w *writer) stmts(ss []*Stmt, depth int) {
	for _, s := range ss {
		w.stmt(s, depth)
	}
}

func (w *writer) line(depth int, s string) {
	w.sb.WriteString(strings.Repeat("\t", depth))
	w.sb.WriteString(s)
	w.sb.WriteString("\n")
}

func (w *writer) block(ss []*Stmt, depth int) {
	w.sb.WriteString("{\n")
	w.stmts(ss, depth+1)
	w.sb.WriteString(strings.Repeat("\t", depth) + "}")
}

func (w *writer) simple(s *Stmt) string {
	switch s.K {
	case SExpr:
		return w.stmtExpr(s.E)
	case SPrint, SPrintf:
		kw := "print"
		if s.K == SPrintf {
			kw = "printf"
		}
		parts := make([]string, len(s.Args))
		for i, a := range s.Args {
			parts[i] = w.expr(a, x.Ctx{Print: true})
		}
		out := kw
		if len(parts) > 0 {
			out += " " + strings.Join(parts, ", ")
		}
		if s.Redirect != "" {
			// the destination is kept to primaries / parenthesised forms by the generator
			d := x.Min(s.Dest, x.Ctx{})
			if s.Dest.Level() < x.LPrimary {
				d = "(" + d + ")"
			}
			out += " " + s.Redirect + " " + d
		}
		return out
	case SDelete:
		if len(s.Args) == 0 {
			return "delete " + s.Arr
		}
		parts := make([]string, len(s.Args))
		for i, a := range s.Args {
			parts[i] = w.expr(a, x.Ctx{})
		}
		return "delete " + s.Arr + "[" + strings.Join(parts, ", ") + "]"
	}
	panic("not a simple statement")
}

func (w *writer) stmt(s *Stmt, depth int) {
	ind := strings.Repeat("\t", depth)
	switch s.K {
	case SExpr, SPrint, SPrintf, SDelete:
		w.line(depth, w.simple(s))
	case SIf:
		c, body, els := s.E, s.Body, s.Else
		if w.st.NegateCond && len(els) > 0 {
			c, body, els = x.Unary("!", x.Group(c)), els, body
		}
		w.sb.WriteString(ind + "if (" + w.cond(c) + ") ")
		w.block(body, depth)
		if len(els) > 0 {
			w.sb.WriteString(" else ")
			w.block(els, depth)
		}
		w.sb.WriteString("\n")
	case SWhile:
		w.sb.WriteString(ind + "while (" + w.cond(s.E) + ") ")
		w.block(s.Body, depth)
		w.sb.WriteString("\n")
	case SDo:
		w.sb.WriteString(ind + "do ")
		w.block(s.Body, depth)
		w.sb.WriteString(" while (" + w.cond(s.E) + ")\n")
	case SFor:
		init, cond, post := "", "", ""
		if s.Init != nil {
			init = w.simple(s.Init)
		}
		if s.E != nil {
			cond = w.cond(s.E)
		}
		if s.Post != nil {
			post = w.simple(s.Post)
		}
		w.sb.WriteString(ind + "for (" + init + "; " + cond + "; " + post + ") ")
		w.block(s.Body, depth)
		w.sb.WriteString("\n")
	case SForIn:
		w.sb.WriteString(ind + "for (" + s.Var + " in " + s.Arr + ") ")
		w.block(s.Body, depth)
		w.sb.WriteString("\n")
	case SBreak:
		w.line(depth, "break")
	case SContinue:
		w.line(depth, "continue")
	case SNext:
		w.line(depth, "next")
	case SNextfile:
		w.line(depth, "nextfile")
	case SExit:
		if s.E != nil {
			w.line(depth, "exit "+w.expr(s.E, x.Ctx{}))
		} else {
			w.line(depth, "exit")
		}
	case SReturn:
		if s.E != nil {
			w.line(depth, "return "+w.expr(s.E, x.Ctx{}))
		} else {
			w.line(depth, "return")
		}
	case SBlock:
		w.sb.WriteString(ind)
		w.block(s.Body, depth)
		w.sb.WriteString("\n")
	}
}

// ---- random generation -------------------------------------------------------------------

// Features switches on optional constructs.
type Features struct {
	Files    bool // getline < file, print > file (names from Env.Files / Env.OutFiles)
	Commands bool // system(), cmd | getline, print | cmd (vsh command language)
	MainLoop bool // pattern-action rules, next, nextfile, getline from the main input
	Exit     bool
	Specials bool // assignments to NF, $0, FS, OFS, ORS, SUBSEP, CONVFMT, OFMT, NR, FNR
	Errors   bool // allow division by zero and similar run-time errors (outcome compared as "error")
	Funcs    bool
}

// Env names the external objects a generated program may refer to.
type Env struct {
	InFiles  []string // existing readable files (absolute names)
	OutFiles []string // names the program may write
	Missing  string   // a name that does not exist
}

type G struct {
	R    *rand.Rand
	F    Features
	Env  Env
	fuel int // unique counter names for loop fuel

	scalars []string
	arrays  []string
	funcs   []*Func
	// scope while generating a function body
	locals      []string
	localArrays []string
	inFunc      bool
	inLoop      int
	inForIn     int
	inMain      bool // inside a rule body (next/nextfile/plain getline allowed)
	depthBudget int
}

func New(r *rand.Rand, f Features, env Env) *G {
	return &G{R: r, F: f, Env: env, scalars: []string{"g0", "g1", "g2", "g3", "s0", "s1"}, arrays: []string{"A0", "A1"}}
}

func (g *G) pick(ss []string) string { return ss[g.R.Intn(len(ss))] }
func (g *G) chance(pct int) bool     { return g.R.Intn(100) < pct }

var strPool = []string{"", "a", "abc", "foo bar", "10", "3.5", " 7 ", "1e2", "x1", "0", "-2", "hello world", "A-B", "b", "zz top", "0.0", "+5", ".5"}
var rePool = []string{"a", "^a", "b$", "[0-9]+", "o+", "a|b", "[a-c]", "x*y", "^$", "[[:alpha:]]+", "(ab)+", "1", " +", "o", "^[0-9.]+$"}
var fmtPool = []string{"%d", "%5d", "%-4d|", "%s", "%5s|", "%-6s|", "%.2s", "%c", "%.2f", "%8.3f", "%e", "%.3g", "%05d", "%+d", "%x", "%o", "%5.1f%%", "%s=%d", "[%s][%s]", "%d %d %d"}

func (g *G) scalarName() string {
	if g.inFunc && len(g.locals) > 0 && g.chance(60) {
		return g.pick(g.locals)
	}
	return g.pick(g.scalars)
}

func (g *G) arrayName() string {
	if g.inFunc && len(g.localArrays) > 0 && g.chance(60) {
		return g.pick(g.localArrays)
	}
	return g.pick(g.arrays)
}

func (g *G) smallInt() *x.E { return x.Num(float64(g.R.Intn(7))) }

func (g *G) numLit() *x.E {
	switch g.R.Intn(8) {
	case 0:
		return x.Num(0.5)
	case 1:
		return x.Num(float64(g.R.Intn(1000)))
	case 2:
		return x.Num(2.25)
	case 3:
		return x.Num(100000)
	case 4:
		return x.Num(1e6)
	case 5:
		return x.Num(0.1)
	}
	return g.smallInt()
}

func (g *G) strLit() *x.E { return x.Str(g.pick(strPool)) }

// subscript is a side-effect free array subscript expression.
func (g *G) subscript() *x.E {
	switch g.R.Intn(8) {
	case 0:
		return g.strLit()
	case 1:
		return x.Var(g.scalarName())
	case 2:
		return x.Bin("cat", x.Str("k"), g.smallInt())
	case 3:
		return x.Num(0.5)
	case 4:
		if g.inMain {
			return x.Field(x.Num(float64(1 + g.R.Intn(3))))
		}
	case 5:
		if g.inMain || g.F.MainLoop {
			return x.Var("NR")
		}
	}
	return g.smallInt()
}

func (g *G) fieldIndex() *x.E {
	switch g.R.Intn(10) {
	case 0:
		return x.Var("NF")
	case 1:
		return x.Bin("-", x.Var("NF"), x.Num(1))
	case 2:
		return x.Var(g.scalarName())
	case 3:
		return x.Num(0)
	case 4:
		return x.Bin("+", x.Num(1), x.Num(1))
	case 5:
		return x.Num(-1)
	}
	return x.Num(float64(g.R.Intn(5)))
}

// lvalue returns an assignable expression.
func (g *G) lvalue() *x.E {
	switch r := g.R.Intn(10); {
	case r < 5:
		return x.Var(g.scalarName())
	case r < 8:
		if g.chance(15) {
			return x.Index(g.arrayName(), g.subscript(), g.subscript())
		}
		return x.Index(g.arrayName(), g.subscript())
	default:
		if g.F.Specials || g.inMain {
			return x.Field(g.fieldIndexForAssign())
		}
		return x.Var(g.scalarName())
	}
}

func (g *G) fieldIndexForAssign() *x.E {
	switch g.R.Intn(6) {
	case 0:
		return x.Var("NF")
	case 1:
		return x.Bin("+", x.Var("NF"), x.Num(1))
	case 2:
		return x.Num(0)
	}
	return x.Num(float64(1 + g.R.Intn(4)))
}

// numExpr generates an expression used for its numeric value.
func (g *G) numExpr(d int) *x.E {
	if d <= 0 {
		switch g.R.Intn(6) {
		case 0:
			return x.Var(g.scalarName())
		case 1:
			if g.inMain {
				return x.Field(g.fieldIndex())
			}
			return g.numLit()
		case 2:
			return x.Index(g.arrayName(), g.subscript())
		case 3:
			if g.F.MainLoop {
				return x.Var([]string{"NR", "NF", "FNR"}[g.R.Intn(3)])
			}
		}
		return g.numLit()
	}
	switch r := g.R.Intn(100); {
	case r < 22:
		op := []string{"+", "-", "*"}[g.R.Intn(3)]
		return x.Bin(op, g.numExpr(d-1), g.numExpr(d-1))
	case r < 28:
		den := g.numExpr(d - 1)
		if !g.F.Errors || g.chance(90) {
			den = x.Bin("+", x.Call("length", g.strExpr(0)), x.Num(1)) // never zero
		}
		return x.Bin([]string{"/", "%"}[g.R.Intn(2)], g.numExpr(d-1), den)
	case r < 31:
		return x.Bin("^", x.Bin("%", g.numExpr(d-1), x.Num(5)), x.Num(float64(g.R.Intn(4))))
	case r < 36:
		return x.Unary([]string{"-", "+", "!"}[g.R.Intn(3)], g.anyExpr(d-1))
	case r < 46:
		return x.Incr([]string{"++", "--"}[g.R.Intn(2)], g.chance(50), g.lvalue())
	case r < 52:
		return x.Assign(g.pick([]string{"=", "+=", "-=", "*="}), g.lvalue(), g.numExpr(d-1))
	case r < 57:
		return x.Cond(g.condExpr(d-1), g.numExpr(d-1), g.numExpr(d-1))
	case r < 64:
		return x.Call("length", g.strExpr(d-1))
	case r < 68:
		return x.Call("index", g.strExpr(d-1), x.Str(g.pick([]string{"a", "o", " ", "1", "b"})))
	case r < 71:
		return x.Call("int", g.numExpr(d-1))
	case r < 74:
		return x.Call("match", g.strExpr(d-1), g.regexArg())
	case r < 77:
		return x.Var([]string{"RSTART", "RLENGTH"}[g.R.Intn(2)])
	case r < 81:
		return g.condExpr(d - 1)
	case r < 84:
		if g.F.Funcs && len(g.funcs) > 0 {
			return g.call(d - 1)
		}
	case r < 87:
		return x.Call("split", g.strExpr(d-1), x.Var(g.arrayName()), g.sepArg())
	case r < 90:
		return x.Call(g.pick([]string{"sub", "gsub"}), g.regexArg(), g.replArg(), g.subTarget())
	case r < 92:
		return x.Call("length", x.Var(g.arrayName()))
	case r < 94:
		return x.Group(g.numExpr(d - 1))
	case r < 96:
		return x.Call("substr", g.strExpr(d-1), g.smallInt(), g.smallInt())
	}
	return g.numExpr(d - 1)
}

func (g *G) regexArg() *x.E {
	if g.chance(50) {
		return x.Regex(g.pick(rePool))
	}
	return x.Str(g.pick(rePool))
}

func (g *G) sepArg() *x.E {
	return x.Str(g.pick([]string{" ", ",", ":", "a", "[0-9]+", " +", "ab", "o"}))
}

func (g *G) replArg() *x.E {
	return x.Str(g.pick([]string{"", "X", "&", "[&]", "\\&", "&&", "y&y", "-"}))
}

func (g *G) subTarget() *x.E {
	switch g.R.Intn(4) {
	case 0:
		return x.Index(g.arrayName(), g.subscript())
	case 1:
		if g.inMain || g.F.Specials {
			return x.Field(x.Num(float64(g.R.Intn(4))))
		}
	}
	return x.Var(g.scalarName())
}

// strExpr generates an expression used for its string value.
func (g *G) strExpr(d int) *x.E {
	if d <= 0 {
		switch g.R.Intn(6) {
		case 0:
			return x.Var(g.scalarName())
		case 1:
			if g.inMain {
				return x.Field(g.fieldIndex())
			}
		case 2:
			return x.Index(g.arrayName(), g.subscript())
		case 3:
			return g.numLit()
		}
		return g.strLit()
	}
	switch r := g.R.Intn(100); {
	case r < 30:
		n := 2 + g.R.Intn(3)
		e := g.strExpr(d - 1)
		for i := 1; i < n; i++ {
			if g.chance(50) {
				e = x.Bin("cat", e, g.strExpr(d-1))
			} else {
				e = x.Bin("cat", g.strExpr(d-1), e)
			}
		}
		return e
	case r < 42:
		if g.chance(50) {
			return x.Call("substr", g.strExpr(d-1), g.posArg())
		}
		return x.Call("substr", g.strExpr(d-1), g.posArg(), g.posArg())
	case r < 50:
		return x.Call(g.pick([]string{"tolower", "toupper"}), g.strExpr(d-1))
	case r < 62:
		f := g.pick(fmtPool)
		args := []*x.E{x.Str(f)}
		for i := 0; i < strings.Count(strings.ReplaceAll(f, "%%", ""), "%"); i++ {
			args = append(args, g.fmtArg(f, i, d-1))
		}
		return x.Call("sprintf", args...)
	case r < 70:
		return x.Cond(g.condExpr(d-1), g.strExpr(d-1), g.strExpr(d-1))
	case r < 76:
		return x.Assign("=", g.lvalue(), g.strExpr(d-1))
	case r < 82:
		return g.numExpr(d - 1)
	case r < 86:
		if g.F.Funcs && len(g.funcs) > 0 {
			return g.call(d - 1)
		}
	case r < 90:
		return x.Group(g.strExpr(d - 1))
	case r < 94:
		if g.inMain {
			return x.Field(g.fieldIndex())
		}
	}
	return g.strExpr(d - 1)
}

func (g *G) posArg() *x.E {
	switch g.R.Intn(8) {
	case 0:
		return x.Num(0)
	case 1:
		return x.Num(-1)
	case 2:
		return x.Num(1.5)
	case 3:
		return x.Var(g.scalarName())
	case 4:
		return x.Num(100)
	}
	return x.Num(float64(1 + g.R.Intn(4)))
}

// fmtArg gives an argument suited to the i-th conversion of the format.
func (g *G) fmtArg(f string, i, d int) *x.E {
	f = strings.ReplaceAll(f, "%%", "")
	idx := -1
	conv := byte('s')
	for j := 0; j < len(f); j++ {
		if f[j] == '%' {
			idx++
			k := j + 1
			for k < len(f) && strings.IndexByte("-+ 0123456789.", f[k]) >= 0 {
				k++
			}
			if idx == i && k < len(f) {
				conv = f[k]
			}
		}
	}
	switch conv {
	case 'c':
		if g.chance(50) {
			return x.Num(float64(65 + g.R.Intn(26)))
		}
		return x.Str(g.pick([]string{"q", "hello", "Z"}))
	case 'x', 'o', 'u':
		return x.Num(float64(g.R.Intn(5000)))
	case 's':
		return g.strExpr(d)
	}
	return g.numExpr(d)
}

// condExpr generates a condition with every comparison-typing situation.
func (g *G) condExpr(d int) *x.E {
	rel := []string{"<", "<=", "==", "!=", ">", ">="}
	switch r := g.R.Intn(100); {
	case r < 40:
		return x.Bin(g.pick(rel), g.anyExpr(d), g.anyExpr(d))
	case r < 50:
		// equal operands are the interesting case for inverse jumps
		e := g.anyExpr(0)
		return x.Bin(g.pick(rel), e, e)
	case r < 60:
		return x.Bin(g.pick([]string{"~", "!~"}), g.strExpr(d), g.regexArg())
	case r < 70:
		if d > 0 {
			return x.Bin(g.pick([]string{"&&", "||"}), g.condExpr(d-1), g.condExpr(d-1))
		}
	case r < 76:
		return x.Unary("!", g.anyExpr(d))
	case r < 84:
		if g.chance(20) {
			return x.In(g.arrayName(), g.subscript(), g.subscript())
		}
		return x.In(g.arrayName(), g.subscript())
	case r < 88:
		if g.inMain {
			return x.Regex(g.pick(rePool))
		}
	case r < 92:
		return x.Group(g.condExpr(d))
	}
	return g.anyExpr(d)
}

func (g *G) anyExpr(d int) *x.E {
	if g.chance(55) {
		return g.numExpr(d)
	}
	return g.strExpr(d)
}

func (g *G) call(d int) *x.E {
	f := g.funcs[g.R.Intn(len(g.funcs))]
	return g.callOf(f, d)
}

// callOf builds a call; array parameters (named a*) receive array names, others expressions;
// trailing parameters named l* are locals and receive no argument.
func (g *G) callOf(f *Func, d int) *x.E {
	var args []*x.E
	for _, p := range f.Params {
		switch {
		case strings.HasPrefix(p, "l"):
			// local: no argument
		case strings.HasPrefix(p, "a"):
			args = append(args, x.Var(g.arrayName()))
		case strings.HasPrefix(p, "d"):
			args = append(args, x.Num(float64(g.R.Intn(4))))
		default:
			if g.chance(15) && d >= 0 {
				// fewer arguments than parameters
				return x.User(f.Name, args...)
			}
			args = append(args, g.anyExpr(d))
		}
	}
	return x.User(f.Name, args...)
}
