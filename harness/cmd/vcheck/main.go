// Command vcheck runs one property check (parent) or one batch of it (child).
package main

import (
	"os"

	"verifharness/core"
	_ "verifharness/props"
)

func main() { os.Exit(core.Main(os.Args[1:])) }
