// Command refcheck is a development aid: it runs the corpus seeds (or a program given with -e)
// through goawk's VM and through the reference evaluator and prints disagreements.
package main

import (
	"flag"
	"fmt"
	"os"
	"strings"

	"github.com/benhoyt/goawk/interp"

	"verifharness/corpus"
	"verifharness/refeval"
	"verifharness/run"
)

func main() {
	expr := flag.String("e", "", "program text")
	input := flag.String("i", "a b c\n1 2 3\nfoo bar baz 7\n  lead 10 x\n", "stdin text")
	all := flag.Bool("testdata", false, "also run /repo/testdata programs")
	flag.Parse()
	progs := corpus.Seeds
	if *expr != "" {
		progs = []string{*expr}
	} else if *all {
		progs = corpus.All()
	}
	bad, unsup, ok := 0, 0, 0
	for _, src := range progs {
		prog, err, pm := run.Parse(src, nil)
		if pm != "" || err != nil {
			continue
		}
		ref := refeval.Run(prog, &refeval.Config{Stdin: []byte(*input), Shell: refeval.VshModel})
		if refeval.IsUnsupported(ref.Err) {
			unsup++
			if *expr != "" {
				fmt.Println("unsupported:", ref.Err)
			}
			continue
		}
		out := run.Exec(prog, &interp.Config{Stdin: strings.NewReader(*input), NoExec: true, NoFileWrites: true, NoFileReads: true}, run.Opts{})
		refSig := fmt.Sprintf("%s status=%d stdout=%q", map[bool]string{true: "error", false: "ok"}[ref.Err != nil], ref.Status, ref.Stdout)
		if refSig != out.Sig() || len(out.Faults) > 0 {
			bad++
			fmt.Printf("DISAGREE on:\n%s\n  vm : %s\n  ref: %s (err=%v)\n", src, out.String(), refSig, ref.Err)
		} else {
			ok++
			if *expr != "" {
				fmt.Println("agree:", refSig)
			}
		}
	}
	fmt.Printf("agree=%d disagree=%d unsupported=%d\n", ok, bad, unsup)
	if bad > 0 {
		os.Exit(1)
	}
}
