// Command vsh is a deterministic fake shell used as interp.Config.ShellCommand: goawk runs
// `vsh <command string>`. It is a single process (no grandchildren holding pipes open) and its
// small command language is mirrored by the harness models.
//
//	emit:<text>        write text and a newline to stdout
//	emitraw:<text>     write text to stdout
//	lines:<p>:<n>      write n lines "<p><i>" (i = 1..n), one write call per line
//	cat                copy stdin to stdout
//	catto:<file>       copy stdin to file (truncate)     appendto:<file>   (append)
//	count              print "<lines> <bytes>" of stdin
//	err:<text>         write text and a newline to stderr
//	mark:<file>        create file (sentinel that the command ran)
//	sleep:<ms>         sleep
//	pgrp               print "pgrp-same" if this process is in its parent's process group, else "pgrp-own"
//	block              never exit
//	spawnhold:<ms>     start a child process (this program, sleeping ms) that inherits stdout and
//	                   stderr and is not waited for: it keeps those descriptors open after this
//	                   process is gone (a background job of a shell)
//	exit:<n>           exit with status n (default 0 at end)
//	kill:<sig>         kill self with signal number
//
// Operations are separated by ';'.
package main

import (
	"bufio"
	"fmt"
	"io"
	"os"
	"os/exec"
	"strconv"
	"strings"
	"syscall"
	"time"
)

func main() {
	if len(os.Args) < 2 {
		os.Exit(0)
	}
	cmdline := os.Args[len(os.Args)-1]
	for _, op := range strings.Split(cmdline, ";") {
		op = strings.TrimSpace(op)
		name, arg, _ := strings.Cut(op, ":")
		switch name {
		case "":
		case "emit":
			fmt.Fprintln(os.Stdout, arg)
		case "emitraw":
			fmt.Fprint(os.Stdout, arg)
		case "lines":
			p, ns, _ := strings.Cut(arg, ":")
			n, _ := strconv.Atoi(ns)
			for i := 1; i <= n; i++ {
				_, _ = os.Stdout.WriteString(p + strconv.Itoa(i) + "\n")
			}
		case "cat":
			_, _ = io.Copy(os.Stdout, os.Stdin)
		case "catto", "appendto":
			flags := os.O_CREATE | os.O_WRONLY | os.O_TRUNC
			if name == "appendto" {
				flags = os.O_CREATE | os.O_WRONLY | os.O_APPEND
			}
			f, err := os.OpenFile(arg, flags, 0o644)
			if err != nil {
				fmt.Fprintln(os.Stderr, "vsh:", err)
				os.Exit(97)
			}
			_, _ = io.Copy(f, os.Stdin)
			_ = f.Close()
		case "count":
			r := bufio.NewReader(os.Stdin)
			lines, bytes := 0, 0
			for {
				b, err := r.ReadByte()
				if err != nil {
					break
				}
				bytes++
				if b == '\n' {
					lines++
				}
			}
			fmt.Fprintf(os.Stdout, "%d %d\n", lines, bytes)
		case "err":
			fmt.Fprintln(os.Stderr, arg)
		case "mark":
			f, err := os.Create(arg)
			if err == nil {
				_ = f.Close()
			}
		case "sleep":
			ms, _ := strconv.Atoi(arg)
			time.Sleep(time.Duration(ms) * time.Millisecond)
		case "spawnhold":
			child := exec.Command(os.Args[0], "sleep:"+arg)
			child.Stdout, child.Stderr = os.Stdout, os.Stderr
			_ = child.Start()
		case "pgrp":
			// whether this process is in the process group of the process that started it
			if pg, err := syscall.Getpgid(os.Getppid()); err == nil && pg == syscall.Getpgrp() {
				fmt.Fprintln(os.Stdout, "pgrp-same")
			} else {
				fmt.Fprintln(os.Stdout, "pgrp-own")
			}
		case "block":
			for {
				time.Sleep(time.Hour)
			}
		case "exit":
			n, _ := strconv.Atoi(arg)
			os.Exit(n)
		case "kill":
			n, _ := strconv.Atoi(arg)
			_ = syscall.Kill(os.Getpid(), syscall.Signal(n))
			time.Sleep(time.Second)
		default:
			fmt.Fprintf(os.Stderr, "vsh: unknown op %q\n", name)
			os.Exit(98)
		}
	}
}
