#!/usr/bin/env python3
# apply one named breaking edit to /tmp/dev/C13-repo
import sys
R='/tmp/dev/C13-repo/'
def sub(path, old, new, count=1):
    s=open(R+path).read()
    assert s.count(old)>=1, (path, old)
    s=s.replace(old,new,count)
    open(R+path,'w').write(s)
m=sys.argv[1]
if m=='M1': # system(): no flush before exec
    sub('interp/vm.go','\t\t_ = p.flushAll() // ensure synchronization\n','')
elif m=='M2': # close of a file without flush
    sub('interp/iostream.go','''	s.closed = true
	flushErr := s.Writer.Flush()
	closeErr := s.closer.Close()
	if err := firstError(flushErr, closeErr); err != nil {''','''	s.closed = true
	var flushErr error
	closeErr := s.closer.Close()
	if err := firstError(flushErr, closeErr); err != nil {''')
elif m=='M3': # close of an output command does not wait
    sub('interp/iostream.go','''	var waitErr error
	s.exitCode, waitErr = waitExitCode(s.cmd)
	return firstError(waitErr, flushErr, closeErr)''','''	var waitErr error
	go func() { _, _ = waitExitCode(s.cmd) }()
	s.exitCode = 0
	return firstError(waitErr, flushErr, closeErr)''')
elif m=='M4': # print ignores the write error
    sub('interp/vm.go','''			if numArgs > 0 {
				err := p.printArgs(output, args)
				if err != nil {
					return err
				}''','''			if numArgs > 0 {
				_ = p.printArgs(output, args)''')
elif m=='M5': # print | cmd: no flush of stdout before the command starts
    sub('interp/io.go','''		cmd.Stderr = p.errorOutput
		p.flushOutputAndError() // ensure synchronization
		out, err := newOutCmdStream(cmd)''','''		cmd.Stderr = p.errorOutput
		out, err := newOutCmdStream(cmd)''')
elif m=='M6': # >> truncates as well (flag mix-up) when the file is larger than nothing
    sub('interp/io.go','''		if redirect == lexer.GREATER {
			flags |= os.O_TRUNC
		} else {
			flags |= os.O_APPEND
		}''','''		flags |= os.O_TRUNC
		if redirect != lexer.GREATER {
			flags |= os.O_APPEND
		}''')
elif m=='M7': # streams are not closed at the end when the program exits with a non-zero status
    sub('interp/io.go','''	for _, w := range p.outputStreams {
		_ = w.Close()
	}''','''	for _, w := range p.outputStreams {
		if p.exitStatus != 0 {
			continue
		}
		_ = w.Close()
	}''')
elif m=='M8': # stdout is flushed before the commands are closed at the end of the run
    sub('interp/io.go','''	for _, w := range p.outputStreams {
		_ = w.Close()
	}
	if f, ok := p.output.(flusher); ok {
		_ = f.Flush()
	}''','''	if f, ok := p.output.(flusher); ok {
		_ = f.Flush()
	}
	for _, w := range p.outputStreams {
		_ = w.Close()
	}''')
elif m=='M9': # goawk.go: run-time errors are reported but the exit status stays 0
    sub('goawk.go','''	status, err := interpreter.Execute(config)
	if err != nil {
		errorExit(err)
	}''','''	status, err := interpreter.Execute(config)
	if err != nil {
		fmt.Fprintln(os.Stderr, err)
	}''')
elif m=='M10': # close() of an input command forgets the exit status
    sub('interp/iostream.go','''	closeErr := s.ReadCloser.Close()
	var waitErr error
	s.exitCode, waitErr = waitExitCode(s.cmd)
	return firstError(waitErr, closeErr)''','''	closeErr := s.ReadCloser.Close()
	var waitErr error
	_, waitErr = waitExitCode(s.cmd)
	s.exitCode = 0
	return firstError(waitErr, closeErr)''')
elif m=='M11': # a second > on an already open name re-opens (truncates) when 64 KiB were written since
    sub('interp/io.go','''	if w, ok := p.outputStreams[name]; ok {
		return w, nil
	}''','''	if w, ok := p.outputStreams[name]; ok {
		if fs, isFile := w.(*outFileStream); !isFile || redirect != lexer.GREATER || fs.Writer.Buffered() > 0 {
			return w, nil
		}
		_ = w.Close()
		delete(p.outputStreams, name)
	}''')
elif m in ('F1','F12'): # suggested fix D1: closeAll returns the final flush error
    sub('interp/io.go','''// Close all streams and so on (after program execution).
func (p *interp) closeAll() {''','''// Close all streams and so on (after program execution). The error of the
// final flush of standard output is returned: it may be the only place a
// failed write shows up.
func (p *interp) closeAll() error {''')
    sub('interp/io.go','''	if f, ok := p.output.(flusher); ok {
		_ = f.Flush()
	}
	if f, ok := p.errorOutput.(flusher); ok {
		_ = f.Flush()
	}
}''','''	var err error
	if f, ok := p.output.(flusher); ok {
		err = f.Flush()
	}
	if f, ok := p.errorOutput.(flusher); ok {
		_ = f.Flush()
	}
	return err
}''')
    sub('interp/interp.go','''func (p *interp) executeAll() (int, error) {
	defer p.closeAll()
''','''func (p *interp) executeAll() (status int, err error) {
	defer func() {
		if closeErr := p.closeAll(); closeErr != nil && err == nil {
			status, err = 0, closeErr
		}
	}()
''')
    sub('interp/interp.go','''	err := p.execute(p.program.Compiled.Begin)''','''	err = p.execute(p.program.Compiled.Begin)''')
    if m=='F12':
        m='F2'
if m=='F2': # suggested fix D2: serialize the interpreter and os/exec's copier goroutines
    sub('interp/interp.go','''		p.output = bufio.NewWriterSize(os.Stdout, outputBufSize)
	}
''','''		p.output = bufio.NewWriterSize(os.Stdout, outputBufSize)
	}
	if _, isFile := p.output.(*os.File); !isFile {
		// Child processes get this writer as their stdout; os/exec then copies their
		// output into it from its own goroutine, concurrently with our writes.
		p.output = &syncWriter{w: p.output}
	}
''')
    sub('interp/io.go','''type flusher interface {''','''// syncWriter serializes the interpreter's writes and flushes with the writes of
// os/exec's output-copying goroutines (it deliberately has no ReadFrom method, so
// io.Copy goes through Write).
type syncWriter struct {
	mu sync.Mutex
	w  io.Writer
}

func (s *syncWriter) Write(b []byte) (int, error) {
	s.mu.Lock()
	defer s.mu.Unlock()
	return s.w.Write(b)
}

func (s *syncWriter) WriteString(str string) (int, error) {
	s.mu.Lock()
	defer s.mu.Unlock()
	return io.WriteString(s.w, str)
}

func (s *syncWriter) Flush() error {
	s.mu.Lock()
	defer s.mu.Unlock()
	if f, ok := s.w.(flusher); ok {
		return f.Flush()
	}
	return nil
}

type flusher interface {''')
    sub('interp/io.go','''	"strings"
	"time"''','''	"strings"
	"sync"
	"time"''')
if m not in ('M1','M2','M3','M4','M5','M6','M7','M8','M9','M10','M11','F1','F2','F12'):
    sys.exit('unknown '+m)
print('applied',m)
