#!/bin/bash
# Confirms sub-agent-produced breaking changes: for each /tmp/mut/<ID>/_out/<N>: the demo passes on a
# pristine worktree of /repo HEAD, the patch applies and builds, the repository suite still passes
# (baseline), and the demo fails with the patch.  Confirmed ones are copied to /verif/seeded/<ID>-<N>/.
export GOFLAGS=-mod=mod GOPROXY=off GOSUMDB=off GOTOOLCHAIN=local
WT=${WT:-/tmp/mutcheck}
SRC=${1:-/tmp/mut}
ONLY=${2:-}
git -C /repo worktree remove --force $WT 2>/dev/null
git -C /repo worktree add -q --detach $WT HEAD || exit 1
run_demo() { # $1 = out dir ; returns demo exit status
  local d=$1
  if [ -f "$d/demo.sh" ]; then
    (cd $WT && timeout 600 bash "$d/demo.sh" $WT) > $WT/_demo.log 2>&1
    return $?
  fi
  if [ -f "$d/demo_test.go" ]; then
    local pkgname dir tests
    pkgname=$(grep -m1 '^package ' "$d/demo_test.go" | awk '{print $2}')
    case "$pkgname" in
      interp|interp_test) dir=interp;; parser|parser_test) dir=parser;; lexer|lexer_test) dir=lexer;;
      main|main_test) dir=.;; ast|ast_test) dir=internal/ast;; resolver|resolver_test) dir=internal/resolver;;
      compiler|compiler_test) dir=internal/compiler;; cover|cover_test) dir=internal/cover;; *) dir=interp;;
    esac
    cp "$d/demo_test.go" "$WT/$dir/zz_demo_test.go"
    tests=$(grep -o '^func Test[A-Za-z0-9_]*' "$d/demo_test.go" | sed 's/func //' | paste -sd'|')
    (cd $WT && timeout 900 go test -vet=off -count=1 -run "^($tests)\$" ./$dir/) > $WT/_demo.log 2>&1
    local rc=$?
    rm -f "$WT/$dir/zz_demo_test.go"
    return $rc
  fi
  echo "no demo" > $WT/_demo.log; return 99
}
for d in $SRC/C*/_out/[0-9]*; do
  id=$(echo $d | sed -E 's#.*/(C[0-9]+)/_out/([0-9]+)#\1-\2#')
  [ -n "$IDOFF" ] && id=${id%-*}-$(( ${id##*-} + IDOFF ))
  [ -n "$ONLY" ] && [[ "$id" != $ONLY* ]] && continue
  [ -f "$d/patch.diff" ] || { echo "$id: no patch"; continue; }
  git -C $WT checkout -q -- . ; git -C $WT clean -fdq -e _demo.log
  run_demo $d; pr=$?
  if ! git -C $WT apply --3way "$d/patch.diff" 2>/dev/null && ! git -C $WT apply "$d/patch.diff"; then echo "$id: PATCH-DOES-NOT-APPLY"; continue; fi
  git -C $WT reset -q 2>/dev/null
  if ! (cd $WT && go build ./... && go build -tags verif ./...) > $WT/_build.log 2>&1; then echo "$id: BUILD-FAILS"; continue; fi
  base=$(REPO_DIR=$WT /verif/tools/baseline_dir.sh | tail -1)
  bm=$(echo "$base" | grep -o 'baseline_missing=[0-9]*' | cut -d= -f2)
  if [ "$bm" != "0" ]; then base=$(REPO_DIR=$WT /verif/tools/baseline_dir.sh | tail -1); bm=$(echo "$base" | grep -o 'baseline_missing=[0-9]*' | cut -d= -f2); fi
  run_demo $d; mr=$?
  verdict=REJECT
  if [ $pr -eq 0 ] && [ $mr -ne 0 ] && [ $mr -ne 99 ] && [ "$bm" = "0" ]; then verdict=CONFIRMED; fi
  echo "$id: $verdict pristine_demo_rc=$pr mutated_demo_rc=$mr baseline_missing=$bm"
  if [ $verdict = CONFIRMED ]; then
    out=/verif/seeded/$id; mkdir -p $out
    cp "$d/patch.diff" $out/; cp "$d"/demo* $out/ 2>/dev/null
    python3 - "$d/meta.json" "$out/meta.json" "$id" "$pr" "$mr" "$bm" <<'PY'
import json,sys
src,dst,id,pr,mr,bm=sys.argv[1:]
try: m=json.load(open(src))
except Exception as e: m={"meta_parse_error":str(e)}
m["seeded_id"]=id
m["confirmed_by_lead"]={"worktree":"scratch worktree of /repo HEAD (removed afterwards)","pristine_demo_exit":int(pr),"mutated_demo_exit":int(mr),"baseline_missing_with_patch":int(bm),
  "ran":"tools/confirm_mutants.sh: demo on pristine tree (pass), git apply patch.diff, go build ./... (and -tags verif), repository suite vs BASELINE stable_pass (all pass), demo on patched tree (fail)"}
json.dump(m,open(dst,'w'),indent=1)
PY
  fi
done
git -C /repo worktree remove --force $WT
