#!/bin/bash
# tools/mutant_matrix.sh <out-file> <lane-dir> <tier> <pairs...>   where a pair is  <seeded-id>:<check-id>
# Runs each seeded mutant against a check (in a scratch copy; /repo is not touched) and appends one line per pair.
OUT=$1; export MT=$2; TIER=$3; shift 3
for pair in "$@"; do
  m=${pair%%:*}; id=${pair##*:}
  line=$(VERIF_WORKERS=${VERIF_WORKERS:-6} timeout 3000 /verif/tools/mutant_run.sh /verif/seeded/$m $id $TIER 2>&1 | tail -1 | cut -c1-300)
  echo "$line" >> $OUT
done
