#!/usr/bin/env python3
"""tools/flip_fixed.py <file> <commit> [id-substring ...] — mark known findings as fixed (all, or those whose id contains a substring)."""
import json,sys
path,commit,subs=sys.argv[1],sys.argv[2],sys.argv[3:]
d=json.load(open(path))
n=0
for f in d['findings']:
    if f.get('status')!='known': continue
    if subs and not any(s in f['id'] for s in subs): continue
    f['status']='fixed'; f['commit']=commit
    if not f['what'].startswith('fixed:'):
        f['what']='fixed: property=%s %s %s'%(f['property'],commit,f['what'])
    n+=1
json.dump(d,open(path,'w'),indent=1,ensure_ascii=False)
print('flipped',n,'in',path)
