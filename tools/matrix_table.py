#!/usr/bin/env python3
"""tools/matrix_table.py <matrix logs...> — markdown table of seeded change x check results, with the title of each change."""
import sys,re,json,os
rows={}
for f in sys.argv[1:]:
    for l in open(f, errors='replace'):
        m=re.match(r'MUTANT (C\d+-\d+) check=(C\d+) tier=(\w+) exit=(\d+): (\d+) VIOLATION lines;\s*(?:kind=(\S+))?',l)
        if m: rows[(m.group(1),m.group(2))]=(m.group(4),m.group(5),m.group(6) or '')
        elif 'patch does not apply' in l or 'does not build' in l:
            print('<!-- ',l.strip(),' -->')
def key(k):
    a,b=k[0].split('-'); return (int(a[1:]),int(b),k[1])
print('| change | what it breaks (seeder\'s title) | check | result |')
print('|---|---|---|---|')
for k in sorted(rows,key=key):
    ex,n,kind=rows[k]
    try: t=json.load(open('/verif/seeded/%s/meta.json'%k[0])).get('title','')
    except Exception: t=''
    t=t.replace('|','\\|')[:150]
    res={'1':'caught (%s witnesses, first kind `%s`)'%(n,kind),'0':'**missed**','2':'inconclusive','3':'n/a (patch no longer applies)'}.get(ex,ex)
    print('| %s | %s | %s | %s |'%(k[0],t,k[1],res))
