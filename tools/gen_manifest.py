#!/usr/bin/env python3
"""Regenerates /verif/MANIFEST.json from tools/manifest_src.json (per-property texts) so that it stays valid."""
import json,subprocess,sys
src=json.load(open('/verif/tools/manifest_src.json'))
props=[json.loads(l) for l in open('/verif/properties.jsonl')]
hooks=subprocess.run(['git','-C','/repo','log','--format=%H %s'],capture_output=True,text=True).stdout.splitlines()
hook_commits=[l.split()[0] for l in hooks if ' verif hook:' in l]
checks=[]; na=[]
for p in props:
    i=p['id']
    c=src['checks'].get(i)
    if c and c.get('claimed',True):
        checks.append({
          "property_id":i,
          "quick_cmd":f"./check {i} quick",
          "thorough_cmd":f"./check {i} thorough",
          "evidence_file":f"/verif/evidence/{i}.json",
          "replay_cmd_template":f"./check {i} --replay {{path}}",
          "engine":"vcheck",
          "level_claimed":{"category":c.get("category","exploration"),"text":c["text"],"design_ref":c.get("design_ref",f"DESIGN.md section 4, {i}")},
          "level_note":c["note"],
          "technique":c["technique"],
        })
    else:
        na.append({"property_id":i,"reason":(c or {}).get("reason","check not built yet in this session; see DESIGN.md build order")})
m={
 "version":1,
 "setup_cmd":"./check --setup",
 "hooks":{"guard":"verif","enable":"go build -tags verif (the harness module replaces github.com/benhoyt/goawk with /repo)",
          "baseline_off_cmd":"/verif/tools/baseline_off.sh","source_commits":hook_commits,"add_only":True},
 "engines":[{"name":"vcheck","path":"/verif/harness","serves_properties":[c["property_id"] for c in checks],
             "kind_free_text":"Go harness: deterministic case batches run in child processes against the real goawk packages (built from /repo with -tags verif); reference models, metamorphic self-agreement, invariant hooks, libc printf oracle, strace, race detector"}],
 "checks":checks,
 "notes":src.get("notes",""),
 "not_applicable":na,
}
json.dump(m,open('/verif/MANIFEST.json','w'),indent=1)
print("checks:",[c["property_id"] for c in checks],"not_applicable:",[n["property_id"] for n in na])
