#!/bin/bash
# Runs a check against a seeded breaking change WITHOUT touching /repo: a scratch worktree of /repo
# HEAD gets the patch, a development copy of /verif is pointed at it (VERIF_REPO).
#   tools/mutant_run.sh <seeded-dir-or-patch> <ID> [quick|thorough]
export GOFLAGS=-mod=mod GOPROXY=off GOSUMDB=off GOTOOLCHAIN=local
P=$1; ID=$2; TIER=${3:-quick}
[ -d "$P" ] && P="$P/patch.diff"; P=$(realpath "$P")
MT=${MT:-/tmp/mt}
mkdir -p $MT
rsync -a --delete --exclude .git --exclude .build --exclude replay --exclude evidence /verif/ $MT/verif/
if [ ! -d $MT/repo ]; then git -C /repo worktree add -q --detach $MT/repo HEAD || exit 3; fi
git -C $MT/repo reset -q --hard; git -C $MT/repo clean -fdq
git -C $MT/repo checkout -q --detach $(git -C /repo rev-parse HEAD) 2>/dev/null
if ! git -C $MT/repo apply "$P" 2>/dev/null; then
  if ! git -C $MT/repo apply --3way "$P" >/dev/null 2>&1 || [ -n "$(git -C $MT/repo diff --name-only --diff-filter=U)" ]; then
    git -C $MT/repo reset -q --hard
    echo "MUTANT $P: patch does not apply"; exit 3
  fi
  git -C $MT/repo reset -q
fi
(cd $MT/repo && go build ./... ) || { echo "MUTANT $P: does not build"; exit 3; }
cd $MT/verif && VERIF_REPO=$MT/repo ./check $ID $TIER > $MT/out.$ID.txt 2>&1
rc=$?
echo "MUTANT $(basename $(dirname $P)) check=$ID tier=$TIER exit=$rc: $(grep -c '^VIOLATION' $MT/out.$ID.txt) VIOLATION lines; $(grep -m1 'kind=' $MT/out.$ID.txt | cut -c1-220)"
[ $rc -eq 2 ] && tail -2 $MT/out.$ID.txt
git -C $MT/repo reset -q --hard; git -C $MT/repo clean -fdq
exit $rc
