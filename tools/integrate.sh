#!/bin/bash
# tools/integrate.sh C15 — copy a builder agent's deliverables from /tmp/dev/<ID> into /verif
ID=$1; L=$(echo $ID | tr A-Z a-z); D=/tmp/dev/$ID
[ -d $D ] || { echo "no $D"; exit 1; }
cp $D/harness/props/${L}*.go /verif/harness/props/ 2>/dev/null
for d in $D/harness/${L}*/; do [ -d "$d" ] && rsync -a "$d" /verif/harness/$(basename $d)/; done
mkdir -p /verif/known_findings.d /verif/notes
cp $D/known_findings.d/$ID.json /verif/known_findings.d/ 2>/dev/null
cp -r $D/notes/$ID* /verif/notes/ 2>/dev/null
# report changes outside own files
for f in core/core.go core/runner.go run/run.go astx/astx.go corpus/corpus.go cmd/vsh/main.go cmd/vcheck/main.go; do
  cmp -s $D/harness/$f /verif/harness/$f || echo "DIFFERS: harness/$f"
done
cmp -s $D/check /verif/check || echo "DIFFERS: check"
cmp -s $D/c/printf_oracle.c /verif/c/printf_oracle.c || echo "DIFFERS: c/printf_oracle.c"
ls $D/harness | tr '\n' ' '; echo
