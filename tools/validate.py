#!/usr/bin/env python3-vt
import json,jsonschema,glob,sys
m=json.load(open('/verif/MANIFEST.json'))
jsonschema.validate(m,json.load(open('/root/.vp/MANIFEST.schema.json')))
es=json.load(open('/root/.vp/EVIDENCE.schema.json'))
bad=0
for c in m['checks']:
    try:
        e=json.load(open(c['evidence_file']))
        jsonschema.validate(e,es)
        cov=e['coverage']
        print(c['property_id'],e['tier'],'eval',cov['evaluations'],'nontrivial',cov['distinct_nontrivial'],'viol',e.get('violations'),'wall',round(e['wall_s']))
    except Exception as ex:
        bad+=1; print(c['property_id'],'EVIDENCE INVALID:',str(ex)[:200])
print('manifest valid; checks',len(m['checks']),'na',len(m.get('not_applicable',[])))
sys.exit(1 if bad else 0)
