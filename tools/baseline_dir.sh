#!/bin/bash
# Runs the repository's own test suite with the verif guard OFF and checks that every
# test listed as stable in /root/.vp/BASELINE.json passes.  Prints a summary; exit 0 iff all pass.
export GOFLAGS=-mod=mod GOPROXY=off GOSUMDB=off GOTOOLCHAIN=local
OUT=$(mktemp)
trap 'rm -f "$OUT"' EXIT
(cd ${REPO_DIR:-/repo} && go test -mod=mod -json -vet=off -count=1 -timeout 25m ./... > "$OUT" 2>/dev/null)
python3 - "$OUT" <<'PY'
import json,sys
passed=set(); failed=set()
for line in open(sys.argv[1]):
    try: e=json.loads(line)
    except Exception: continue
    t=e.get('Test')
    if not t: continue
    k=e['Package']+'::'+t
    if e.get('Action')=='pass': passed.add(k)
    elif e.get('Action')=='fail': failed.add(k)
base=json.load(open('/root/.vp/BASELINE.json'))['stable_pass']
missing=[t for t in base if t not in passed]
print(f"baseline stable_pass={len(base)} passed_now={len(passed)} failed_now={len(failed)} baseline_missing={len(missing)}")
for t in missing[:20]: print("MISSING", t)
sys.exit(1 if missing else 0)
PY
